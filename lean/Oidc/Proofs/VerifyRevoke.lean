import Oidc.Proofs.Verify
/-!
# C14: a revoked token stays rejected for the whole listing period, along every history

After `RevokeToken id` at `tr` the revocation list holds an entry for `id` that lasts until `E = tr + revTTL` and the token cache
holds none.  Every later operation at an instant before `E` preserves both facts — provided the revocation list never has to
evict (the property's "within the capacity of the revocation list") and no token's `jti` string equals the raw token `id` (the
two kinds of key share one cache) — and a verification of `id` in that state is answered negatively.
-/
namespace Oidc.Verify
open Oidc Oidc.Cache

/-! ### lookups under the cache operations -/

theorem lookup_remove_other (l : List Entry) (k k' : String) (h : k ≠ k') : lookup (remove l k') k = lookup l k := by
  unfold lookup remove
  induction l with
  | nil => rfl
  | cons a t ih =>
    by_cases ha : a.key = k'
    · have h1 : (a.key != k') = false := by simp [ha]
      have h2 : (a.key == k) = false := by
        simp only [beq_eq_false_iff_ne, ne_eq]
        intro h'; exact h (h'.symm.trans ha)
      simp only [List.filter_cons, h1, List.find?_cons, h2]
      exact ih
    · have h1 : (a.key != k') = true := by simp [ha]
      simp only [List.filter_cons, h1, if_true, List.find?_cons]
      cases (a.key == k) <;> simp [ih]

theorem lookup_append_other (l : List Entry) (e : Entry) (k : String) (h : e.key ≠ k) : lookup (l ++ [e]) k = lookup l k := by
  unfold lookup
  rw [List.find?_append]
  have : List.find? (fun x => x.key == k) [e] = none := by simp [h]
  rw [this]; simp

theorem lookup_append_self (l : List Entry) (e : Entry) (k : String) (hk : e.key = k) (hl : ∀ x ∈ l, x.key ≠ k) :
    lookup (l ++ [e]) k = some e := by
  unfold lookup
  rw [List.find?_append]
  have : List.find? (fun x => x.key == k) l = none := by
    apply List.find?_eq_none.mpr
    intro x hx; simpa using hl x hx
  simp [this, hk]

theorem lookup_filter_keep (l : List Entry) (p : Entry → Bool) (k : String) (e : Entry)
    (h : lookup l k = some e) (hp : p e = true) : lookup (l.filter p) k = some e := by
  unfold lookup at *
  induction l with
  | nil => simp at h
  | cons a t ih =>
    simp only [List.find?_cons] at h
    cases hk : (a.key == k) with
    | true =>
      simp only [hk] at h
      injection h with h
      subst h
      simp [List.filter_cons, hp, hk]
    | false =>
      simp only [hk] at h
      cases hpa : p a with
      | true => simp only [List.filter_cons, hpa, if_true, List.find?_cons, hk]; exact ih h
      | false => simp only [List.filter_cons, hpa]; exact ih h

/-- the revocation list holds an entry for `k` lasting at least until `E` -/
def Listed (c : C) (k : String) (E : Int) : Prop := ∃ e, lookup c.order k = some e ∧ E ≤ e.exp
/-- the cache holds no entry for `k` -/
def Absent (c : C) (k : String) : Prop := lookup c.order k = none

theorem not_expired_of_lt (se : Bool) (now : Int) (e : Entry) (h : now < e.exp) : expired se now e = false := by
  unfold expired
  cases se <;> simp <;> omega

theorem listed_get_other (se : Bool) (c : C) (now : Int) (k' k : String) (E : Int) (h : k ≠ k') (hl : Listed c k E) :
    Listed (get se c now k').1 k E := by
  obtain ⟨e, he, hE⟩ := hl
  unfold Cache.get
  split
  · exact ⟨e, he, hE⟩
  · rename_i e0 h0
    split
    · exact ⟨e, by simp only; rw [lookup_remove_other _ _ _ h]; exact he, hE⟩
    · refine ⟨e, ?_, hE⟩
      simp only
      rw [lookup_append_other _ _ _ (by rw [(lookup_some h0).2]; exact fun h' => h h'.symm), lookup_remove_other _ _ _ h]
      exact he

theorem listed_get_self (se : Bool) (c : C) (now : Int) (k : String) (E : Int) (hl : Listed c k E) (hnow : now < E) :
    Listed (get se c now k).1 k E ∧ (get se c now k).2.isSome = true := by
  obtain ⟨e, he, hE⟩ := hl
  have hne := not_expired_of_lt se now e (by omega)
  unfold Cache.get
  simp only [he, hne, Bool.false_eq_true, if_false, Option.isSome_some, and_true]
  exact ⟨e, lookup_append_self _ e k (lookup_some he).2 (fun x hx => (mem_remove hx).2), hE⟩

theorem get_length_le (se : Bool) (c : C) (now : Int) (k : String) : (get se c now k).1.order.length ≤ c.order.length := by
  unfold Cache.get
  split
  · exact Nat.le_refl _
  · rename_i e0 h0
    split
    · exact remove_length_le _ _
    · simp only [List.length_append, List.length_singleton]
      have := remove_length_lt (lookup_some h0).1 (lookup_some h0).2
      omega

theorem get_cap (se : Bool) (c : C) (now : Int) (k : String) : (get se c now k).1.cap = c.cap := by
  unfold Cache.get; split
  · rfl
  · split <;> rfl

theorem listed_set_other (se : Bool) (c : C) (now : Int) (k' : String) (v : Nat) (ttl : Int) (k : String) (E : Int)
    (h : k ≠ k') (hroom : c.order.length < c.cap) (hl : Listed c k E) : Listed (set se c now k' v ttl) k E := by
  obtain ⟨e, he, hE⟩ := hl
  refine ⟨e, ?_, hE⟩
  unfold Cache.set
  split
  · simp only
    rw [lookup_append_other _ _ _ (fun h' => h h'.symm), lookup_remove_other _ _ _ h]; exact he
  · have : ¬ c.order.length ≥ c.cap := by omega
    simp only [this, if_false]
    rw [lookup_append_other _ _ _ (fun h' => h h'.symm)]; exact he

theorem listed_set_self (se : Bool) (c : C) (now : Int) (k : String) (v : Nat) (ttl : Int) (E : Int) (hE : E ≤ now + ttl) :
    Listed (set se c now k v ttl) k E := ⟨_, lookup_set_same se c now k v ttl, hE⟩

theorem listed_cleanup (se : Bool) (c : C) (now : Int) (k : String) (E : Int) (hl : Listed c k E) (hnow : now < E) :
    Listed (cleanup se c now) k E := by
  obtain ⟨e, he, hE⟩ := hl
  refine ⟨e, ?_, hE⟩
  unfold cleanup
  exact lookup_filter_keep _ _ _ e he (by simp [not_expired_of_lt se now e (by omega)])

theorem absent_iff (c : C) (k : String) : Absent c k ↔ ∀ e ∈ c.order, e.key ≠ k := by
  unfold Absent lookup
  rw [List.find?_eq_none]
  constructor
  · intro h e he; simpa using h e he
  · intro h e he; simpa using h e he

theorem absent_of_sub (c c' : C) (k : String) (hs : ∀ e ∈ c'.order, e ∈ c.order) (ha : Absent c k) : Absent c' k :=
  (absent_iff c' k).mpr (fun e he => (absent_iff c k).mp ha e (hs e he))

theorem absent_set_other (se : Bool) (c : C) (now : Int) (k' : String) (v : Nat) (ttl : Int) (k : String) (h : k ≠ k')
    (ha : Absent c k) : Absent (set se c now k' v ttl) k := by
  rw [absent_iff] at *
  intro e he
  rcases set_mem se c now k' v ttl e he with h1 | h1
  · exact ha e h1
  · rw [h1]; exact fun h' => h h'.symm

theorem absent_delete_self (c : C) (k : String) : Absent (delete c k) k := by
  rw [absent_iff]; intro e he; exact (mem_remove he).2

/-! ### the invariant -/

def RevInv (v : V) (id : String) (E : Int) : Prop := Listed v.bl id E ∧ Absent v.tc id

theorem revTTL_mono (F : Facts) (T : TokOf) (id : String) (tr t : Int) (h : tr ≤ t) :
    tr + revTTL F T tr id ≤ t + revTTL F T t id := by
  unfold revTTL
  cases F.revokeUntilExp with
  | false => simp only [Bool.false_eq_true, if_false]; omega
  | true =>
    simp only [if_true]
    split <;> split <;> omega

theorem revoke_revInv (F : Facts) (T : TokOf) (v : V) (tr : Int) (id : String) :
    RevInv (revoke F T v tr id) id (tr + revTTL F T tr id) :=
  ⟨listed_set_self F.se v.bl tr id 1 _ _ (Int.le_refl _), absent_delete_self v.tc id⟩

/-- a verification of the revoked token before the end of the listing period is answered negatively and keeps the invariant;
    a verification of any other token keeps it as well -/
theorem verify_revInv (F : Facts) (T : TokOf) (v : V) (now : Int) (id' id : String) (E : Int)
    (hjti : ∀ x, T.jti x ≠ some id) (hroom : v.bl.order.length < v.bl.cap)
    (hinv : RevInv v id E) (hnow : now < E) :
    RevInv (verify F T v now id').1 id E ∧ (id' = id → (verify F T v now id').2 = false) := by
  obtain ⟨hl, ha⟩ := hinv
  unfold verify verifyWith
  simp only
  -- the token cache lookup
  have ha1 : Absent (Cache.get F.se v.tc now id').1 id := absent_of_sub _ _ _ (get_mem F.se v.tc now id') ha
  by_cases hid : id' = id
  · subst hid
    have hmiss : (Cache.get F.se v.tc now id').2.isSome = false := by
      rw [get_out]; unfold Absent at ha; simp [ha]
    simp only [hmiss, Bool.false_eq_true, if_false]
    cases hal : (Limiter.allow F.r F.b v.lim now).2 with
    | false => simp only [Bool.not_false, if_true]; exact ⟨⟨hl, ha1⟩, fun _ => trivial⟩
    | true =>
      simp only [Bool.not_true, Bool.false_eq_true, if_false]
      obtain ⟨hl2, hhit⟩ := listed_get_self F.se v.bl now id' E hl hnow
      simp only [hhit, if_true]
      exact ⟨⟨hl2, ha1⟩, fun _ => trivial⟩
  · have hne : id ≠ id' := fun h => hid h.symm
    refine ⟨?_, fun h => absurd h hid⟩
    cases h1 : (Cache.get F.se v.tc now id').2.isSome with
    | true => simp only [if_true]; exact ⟨hl, ha1⟩
    | false =>
    simp only [Bool.false_eq_true, if_false]
    cases hal : (Limiter.allow F.r F.b v.lim now).2 with
    | false => simp only [Bool.not_false, if_true]; exact ⟨hl, ha1⟩
    | true =>
    simp only [Bool.not_true, Bool.false_eq_true, if_false]
    have hl1 : Listed (Cache.get F.se v.bl now id').1 id E := listed_get_other F.se v.bl now id' id E hne hl
    cases h2 : (Cache.get F.se v.bl now id').2.isSome with
    | true => simp only [if_true]; exact ⟨hl1, ha1⟩
    | false =>
    simp only [Bool.false_eq_true, if_false]
    -- the jti check and listing touch only the key `jti id'`, which is not `id`
    have hl2 : Listed (jtiCheck F T (Cache.get F.se v.bl now id').1 now id').1 id E := by
      unfold jtiCheck
      cases hj : T.jti id' with
      | none => exact hl1
      | some j => exact listed_get_other F.se _ now j id E (fun h => hjti id' (by rw [hj, h])) hl1
    have hlen2 : (jtiCheck F T (Cache.get F.se v.bl now id').1 now id').1.order.length < (jtiCheck F T (Cache.get F.se v.bl now id').1 now id').1.cap := by
      unfold jtiCheck
      cases hj : T.jti id' with
      | none =>
        simp only
        have := get_length_le F.se v.bl now id'
        rw [get_cap]; omega
      | some j =>
        simp only
        have a1 := get_length_le F.se v.bl now id'
        have a2 := get_length_le F.se (Cache.get F.se v.bl now id').1 now j
        rw [get_cap, get_cap]; omega
    cases h3 : (jtiCheck F T (Cache.get F.se v.bl now id').1 now id').2.isSome with
    | true => simp only [if_true]; exact ⟨hl2, ha1⟩
    | false =>
    simp only [Bool.false_eq_true, if_false]
    cases h4 : T.scratch id' now with
    | false => simp only [Bool.not_false, if_true]; exact ⟨hl2, ha1⟩
    | true =>
      simp only [Bool.not_true, Bool.false_eq_true, if_false]
      refine ⟨?_, absent_set_other F.se _ now id' 1 _ id hne ha1⟩
      unfold jtiList
      cases hj : T.jti id' with
      | none => exact hl2
      | some j => exact listed_set_other F.se _ now j 1 F.blTTL id E (fun h => hjti id' (by rw [hj, h])) hlen2 hl2

theorem step_revInv (F : Facts) (T : TokOf) (v : V) (op : Op) (id : String) (tr : Int)
    (hjti : ∀ x, T.jti x ≠ some id) (hroom : v.bl.order.length < v.bl.cap)
    (hinv : RevInv v id (tr + revTTL F T tr id)) (htr : tr ≤ op.time) (hnow : op.time < tr + revTTL F T tr id) :
    RevInv (step F T v op).1 id (tr + revTTL F T tr id) ∧ (∀ now, op = .verify now id → (step F T v op).2 = some false) := by
  cases op with
  | verify now id' =>
    have := verify_revInv F T v now id' id _ hjti hroom hinv hnow
    refine ⟨this.1, ?_⟩
    intro now' heq
    injection heq with h1 h2
    simp only [step]
    rw [this.2 h2]
  | revoke t id' =>
    refine ⟨?_, fun now h => by cases h⟩
    simp only [step, Op.time] at *
    obtain ⟨hl, ha⟩ := hinv
    by_cases hid : id' = id
    · subst hid
      exact ⟨listed_set_self F.se v.bl t id' 1 _ _ (revTTL_mono F T id' tr t htr), absent_delete_self v.tc id'⟩
    · have hne : id ≠ id' := fun h => hid h.symm
      refine ⟨listed_set_other F.se v.bl t id' 1 _ id _ hne hroom hl, ?_⟩
      exact absent_of_sub _ _ _ (fun e he => (mem_remove he).1) ha
  | tick t =>
    refine ⟨?_, fun now h => by cases h⟩
    simp only [step, Op.time] at *
    obtain ⟨hl, ha⟩ := hinv
    exact ⟨listed_cleanup F.se v.bl t id _ hl hnow, absent_of_sub _ _ _ (fun e he => (List.mem_filter.mp he).1) ha⟩

/-- the revocation list has room before every operation of the history (it never has to evict) -/
def RoomAlong (F : Facts) (T : TokOf) : V → List Op → Prop
  | _, [] => True
  | v, op :: t => v.bl.order.length < v.bl.cap ∧ RoomAlong F T (step F T v op).1 t

theorem answers_time_ge (F : Facts) (T : TokOf) (ops : List Op) (v : V) (lo : Int) (hm : Mono lo ops) :
    ∀ op a, (op, a) ∈ answers F T v ops → lo ≤ op.time := by
  induction ops generalizing v lo with
  | nil => intro op a h; cases h
  | cons o t ih =>
    intro op a h
    obtain ⟨h1, h2⟩ := hm
    simp only [answers, List.mem_cons] at h
    rcases h with h | h
    · injection h with h3 _; rw [h3]; exact h1
    · exact Int.le_trans h1 (ih _ _ h2 op a h)

/-- **C14 (revocation over histories).** From any state in which the invariant holds (in particular right after
    `RevokeToken id` at `tr`), along every history with a non-decreasing clock in which the revocation list never has to evict,
    `VerifyToken id` is never answered positively before the end of the listing period `tr + revTTL`. -/
theorem revoked_stays_rejected_from (F : Facts) (T : TokOf) (id : String) (tr : Int) (hjti : ∀ x, T.jti x ≠ some id)
    (ops : List Op) (v : V) (last : Int) (hlast : tr ≤ last) (hm : Mono last ops) (hroom : RoomAlong F T v ops)
    (hinv : RevInv v id (tr + revTTL F T tr id)) :
    ∀ now, (Op.verify now id, some true) ∈ answers F T v ops → tr + revTTL F T tr id ≤ now := by
  induction ops generalizing v last with
  | nil => intro now h; cases h
  | cons op t ih =>
    intro now h
    obtain ⟨h1, h2⟩ := hm
    obtain ⟨r1, r2⟩ := hroom
    by_cases hlt : op.time < tr + revTTL F T tr id
    · have hs := step_revInv F T v op id tr hjti r1 hinv (Int.le_trans hlast h1) hlt
      simp only [answers, List.mem_cons] at h
      rcases h with h | h
      · injection h with h3 h4
        have := hs.2 now h3.symm
        rw [this] at h4
        cases h4
      · exact ih _ op.time (Int.le_trans hlast h1) h2 r2 hs.1 now h
    · -- the history has already passed the end of the listing period
      have := answers_time_ge F T (op :: t) v last ⟨h1, h2⟩ (Op.verify now id) (some true) h
      have hge : op.time ≤ now := by
        simp only [answers, List.mem_cons] at h
        rcases h with h | h
        · injection h with h3 _; rw [← h3]; exact Int.le_refl _
        · exact answers_time_ge F T t _ op.time h2 (Op.verify now id) (some true) h
      omega

theorem revoked_stays_rejected (F : Facts) (T : TokOf) (id : String) (tr : Int) (hjti : ∀ x, T.jti x ≠ some id)
    (ops : List Op) (v : V) (hm : Mono tr ops) (hroom : RoomAlong F T (revoke F T v tr id) ops) :
    ∀ now, (Op.verify now id, some true) ∈ answers F T (revoke F T v tr id) ops → tr + revTTL F T tr id ≤ now :=
  revoked_stays_rejected_from F T id tr hjti ops _ tr (Int.le_refl _) hm hroom (revoke_revInv F T v tr id)

end Oidc.Verify
