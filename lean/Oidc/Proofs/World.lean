import Oidc.Model.World
import Oidc.Proofs.Handler3
namespace Oidc.World
open Oidc Oidc.Session Oidc.Handler Oidc.Strings

/-! ### reading a logged-in view back -/

section
variable (c : Cfg) (e : Env)

theorem main_loggedIn (v : View) (idRaw rt em : Str) :
    (loggedInView c e v idRaw rt em).main =
      pset (pset (pset (pset (pset (pset (pset v.main "created_at" (.i e.now)) "authenticated" (.b true))
        "email" (.s em)) "csrf" (.s [])) "nonce" (.s [])) "code_verifier" (.s [])) "incoming_path" (.s []) := by
  unfold loggedInView
  simp [setIncoming, setVerifier, setNonce, setCSRF, setMain, main_setToken, setEmail, setAuthenticated]

theorem getEmail_loggedIn (v : View) (idRaw rt em : Str) : getEmail (loggedInView c e v idRaw rt em) = em := by
  unfold getEmail
  rw [main_loggedIn]
  rw [pstr_pset_other _ _ _ _ (show "email" ≠ "incoming_path" by decide),
      pstr_pset_other _ _ _ _ (show "email" ≠ "code_verifier" by decide),
      pstr_pset_other _ _ _ _ (show "email" ≠ "nonce" by decide),
      pstr_pset_other _ _ _ _ (show "email" ≠ "csrf" by decide), pstr_pset_same]

theorem created_loggedIn (v : View) (idRaw rt em : Str) :
    pint (loggedInView c e v idRaw rt em).main "created_at" = some e.now := by
  rw [main_loggedIn]
  rw [pint_pset_other _ _ _ _ (show "created_at" ≠ "incoming_path" by decide),
      pint_pset_other _ _ _ _ (show "created_at" ≠ "code_verifier" by decide),
      pint_pset_other _ _ _ _ (show "created_at" ≠ "nonce" by decide),
      pint_pset_other _ _ _ _ (show "created_at" ≠ "csrf" by decide),
      pint_pset_other _ _ _ _ (show "created_at" ≠ "email" by decide),
      pint_pset_other _ _ _ _ (show "created_at" ≠ "authenticated" by decide), pint_pset_same]

theorem authflag_loggedIn (v : View) (idRaw rt em : Str) :
    pbool (loggedInView c e v idRaw rt em).main "authenticated" = true := by
  rw [main_loggedIn]
  rw [pbool_pset_other _ _ _ _ (show "authenticated" ≠ "incoming_path" by decide),
      pbool_pset_other _ _ _ _ (show "authenticated" ≠ "code_verifier" by decide),
      pbool_pset_other _ _ _ _ (show "authenticated" ≠ "nonce" by decide),
      pbool_pset_other _ _ _ _ (show "authenticated" ≠ "csrf" by decide),
      pbool_pset_other _ _ _ _ (show "authenticated" ≠ "email" by decide), pbool_pset_same]

variable (hrt : ∀ t, e.decompress (e.compress t) = t) (hne : ∀ t, e.compress t ≠ [])

include hrt hne in
theorem access_loggedIn (hm : 0 < c.maxSz) (v : View) (idRaw rt em : Str) (d : Str → Str) (hd : d = e.decompress) :
    getToken d (loggedInView c e v idRaw rt em) .access = idRaw := by
  subst hd
  unfold loggedInView
  simp only [setIncoming, setVerifier, setNonce, setCSRF, getToken_setMain]
  rw [getToken_setToken_other _ _ _ _ _ _ _ (by decide)]
  exact getToken_setToken e.compress e.decompress hrt hne c.maxSz hm _ .access idRaw

include hrt hne in
theorem refresh_loggedIn (hm : 0 < c.maxSz) (v : View) (idRaw rt em : Str) (d : Str → Str) (hd : d = e.decompress) :
    getToken d (loggedInView c e v idRaw rt em) .refresh = rt := by
  subst hd
  unfold loggedInView
  simp only [setIncoming, setVerifier, setNonce, setCSRF, getToken_setMain]
  exact getToken_setToken e.compress e.decompress hrt hne c.maxSz hm _ .refresh rt
end

theorem loadChunks_length_le (j : Jar) (k : TokKind) (i fuel : Nat) : (loadChunks j k i fuel).length ≤ fuel := by
  induction fuel generalizing i with
  | zero => simp [loadChunks]
  | succ f ih =>
    simp only [loadChunks]
    split
    · simp only [List.length_cons]; have := ih (i+1); omega
    · simp

theorem getSession_chunks_le (maxAge : Int) (j : Jar) (now : Int) (fuel : Nat) (k : TokKind) :
    ((getSession maxAge j now fuel).chunks k).length ≤ fuel := by
  unfold getSession ageCheck
  split
  · split
    · simp only [clearView, List.length_map, rawView]; exact loadChunks_length_le _ _ _ _
    · simp only [rawView]; exact loadChunks_length_le _ _ _ _
  · simp only [rawView]; exact loadChunks_length_le _ _ _ _

/-! ### C04 — an established session keeps working -/

/-- **C04 (one later request).** Take the jar a successful login at `e0.now` left in the browser.  A later request
    (any instance: `e1` is arbitrary except that it agrees on what token strings mean) that is not for an excluded,
    callback or logout path and not a CORS preflight, arriving within the absolute session lifetime while the ID token
    is accepted and more than the grace period from expiry, with the e-mail passing the domain gate and the token the
    role gate, is forwarded with the session's identity, without any provider call, and leaves the jar unchanged. -/
theorem session_continues (c : Cfg) (e0 e1 : Env) (r : Req) (v0 : View) (idRaw rt em : Str) (fuel : Nat)
    (hrt : ∀ t, e1.decompress (e1.compress t) = t) (hne : ∀ t, e1.compress t ≠ [])
    (hcodec : e0.compress = e1.compress ∧ e0.decompress = e1.decompress)
    (hm : 0 < c.maxSz)
    (hfuel : ∀ k, ((loggedInView c e0 v0 idRaw rt em).chunks k).length ≤ fuel)
    (hpath : excludedPath c r.path = false ∧ r.path ≠ c.logout ∧ r.path ≠ c.callback) (hpre : r.preflight = false)
    (hage : e1.now - e0.now ≤ c.maxAge)
    (hid : idRaw ≠ []) (hparse : (e1.tok idRaw).parses = true) (hacc : (e1.tok idRaw).verdict e1.now = .accept)
    (hgrace : ¬ (e1.tok idRaw).exp < e1.now + c.grace)
    (hem : em ≠ []) (hdom : isAllowedDomain c.allowDomains em = true) (hrole : roleGate c e1 idRaw = true) :
    let j := saveApply (loggedInView c e0 v0 idRaw rt em)
    (serveJar c e1 r j fuel).1.resp = .forward (downstreamHdrs c e1 r em idRaw) ∧
    (serveJar c e1 r j fuel).1.calls = [] ∧ (serveJar c e1 r j fuel).1.saved = [] := by
  intro j
  have hrt0 : ∀ t, e0.decompress (e0.compress t) = t := by rw [hcodec.1, hcodec.2]; exact hrt
  have hne0 : ∀ t, e0.compress t ≠ [] := by rw [hcodec.1]; exact hne
  -- what GetSession delivers
  have hview : getSession c.maxAge j e1.now fuel = loggedInView c e0 v0 idRaw rt em := by
    show getSession c.maxAge (saveApply _) e1.now fuel = _
    rw [getSession_saved _ _ _ _ hfuel]
    unfold ageCheck
    rw [created_loggedIn]
    have : ¬ e1.now - e0.now > c.maxAge := by omega
    simp [this]
  have hacc' : getToken e1.decompress (loggedInView c e0 v0 idRaw rt em) .access = idRaw :=
    access_loggedIn c e0 hrt0 hne0 hm v0 idRaw rt em e1.decompress hcodec.2.symm
  have hemail : getEmail (loggedInView c e0 v0 idRaw rt em) = em := getEmail_loggedIn c e0 v0 idRaw rt em
  have hauth : getAuth c.maxAge e1.now (loggedInView c e0 v0 idRaw rt em) = true := by
    unfold getAuth
    rw [authflag_loggedIn, created_loggedIn]
    simpa using hage
  have hcl : classify c e1 (loggedInView c e0 v0 idRaw rt em) = (true, false, false) := by
    unfold classify
    simp only [hauth, hacc', hid, hparse, hacc, hgrace, Bool.not_true, Bool.false_eq_true, if_false]
  unfold serveJar
  simp only [hview]
  unfold serveV
  simp only [hpath.1, Bool.false_eq_true, if_false, if_neg hpath.2.1, if_neg hpath.2.2, hcl]
  unfold authorized
  simp only [hemail, hacc', hem, if_false, hdom, Bool.not_true, Bool.false_eq_true, hpre]
  have hg : (if c.allowRoles.isEmpty = true then true
      else if (e1.tok idRaw).parses = true then rolesGate c.allowRoles (e1.tok idRaw).groups (e1.tok idRaw).roles
      else false) = roleGate c e1 idRaw := rfl
  rw [hg, hrole]
  simp

/-! ### C11 — logout ends the session -/

/-- a cleared view is not authenticated and holds no tokens -/
theorem classify_clear (c : Cfg) (e : Env) (v : View) : classify c e (clearView v) = (false, false, false) := by
  unfold classify
  rw [getAuth_clear, getToken_clear]
  simp

/-- **C11.** After the logout response has been applied to the browser's cookies, the next request — whatever it
    is, whenever it comes, whichever instance answers — is not forwarded (unless its path is excluded from
    authentication altogether), and a callback presented with that jar creates no session and contacts nobody. -/
theorem logout_ends (c : Cfg) (e0 e1 : Env) (r0 r1 : Req) (j : Jar) (fuel : Nat)
    (hlogout : excludedPath c r0.path = false ∧ r0.path = c.logout)
    (hx : excludedPath c r1.path = false) :
    let j1 := (serveJar c e0 r0 j fuel).2
    ((serveJar c e1 r1 j1 fuel).1.resp.isForward = false) ∧
    (r1.path = c.callback → r1.path ≠ c.logout →
      (serveJar c e1 r1 j1 fuel).1.calls = [] ∧ (serveJar c e1 r1 j1 fuel).1.saved = []) := by
  intro j1
  -- the jar after logout is the saved cleared view
  have hj1 : j1 = saveApply (clearView (getSession c.maxAge j e0.now fuel)) := by
    show (serveJar c e0 r0 j fuel).2 = _
    unfold serveJar serveV
    simp only [hlogout.1, Bool.false_eq_true, if_false, if_pos hlogout.2]
    have := (logout_spec c e0 r0 (getSession c.maxAge j e0.now fuel)).1
    simp only [this, applySaves, List.getLast?_singleton]
  -- what the next GetSession delivers: a cleared view again
  have hlen : ∀ k, ((clearView (getSession c.maxAge j e0.now fuel)).chunks k).length ≤ fuel := by
    intro k
    simp only [clearView, List.length_map]
    exact getSession_chunks_le c.maxAge j e0.now fuel k
  have hview : getSession c.maxAge j1 e1.now fuel = clearView (getSession c.maxAge j e0.now fuel) := by
    rw [hj1, getSession_saved _ _ _ _ hlen]
    unfold ageCheck
    simp [clearView, pint, pget]
  unfold serveJar
  simp only [hview]
  constructor
  · unfold serveV
    simp only [hx, Bool.false_eq_true, if_false]
    by_cases hl : r1.path = c.logout
    · rw [if_pos hl]; exact handleLogout_not_forward _ _ _ _
    rw [if_neg hl]
    by_cases hc : r1.path = c.callback
    · rw [if_pos hc]; exact handleCallback_not_forward _ _ _ _
    rw [if_neg hc, classify_clear]
    exact initiate_not_forward _ _ _ _ _ _
  · intro hc hl
    unfold serveV
    simp only [hx, Bool.false_eq_true, if_false, if_neg hl, if_pos hc]
    exact callback_without_state c e1 r1 _ (clear_main_fields _).2.1

end Oidc.World
