import Oidc.Proofs.World
namespace Oidc.World
open Oidc Oidc.Session Oidc.Handler Oidc.Strings

/-! ### C17 — unusable cookies mean "not logged in", and a login heals the jar -/

/-- the view initiation stores -/
def initView (c : Cfg) (e : Env) (r : Req) (v : View) : View :=
  setIncoming
    (if c.pkce then setVerifier (setNonce (setCSRF (clearView v) (e.rnd 0)) (e.rnd 1)) (e.rnd 2)
     else setNonce (setCSRF (clearView v) (e.rnd 0)) (e.rnd 1))
    (sanitizeIncoming c.maxIncoming r.rawURI)

theorem initiate_eq (c : Cfg) (e : Env) (r : Req) (v : View) (earlier calls) :
    initiate c e r v earlier calls =
      { resp := .redirectAuth (e.rnd 0) (e.rnd 1) (if c.pkce then e.s256 (e.rnd 2) else []) (r.base ++ c.callback),
        saved := earlier ++ [clearView v, initView c e r v], calls := calls } := by
  unfold initiate initView
  cases c.pkce <;> rfl

theorem csrf_initView (c e r v) : getCSRF (initView c e r v) = e.rnd 0 := by
  unfold initView getCSRF
  cases c.pkce <;>
  simp [setIncoming, setVerifier, setNonce, setCSRF, setMain,
    pstr_pset_other _ _ _ _ (show "csrf" ≠ "incoming_path" by decide),
    pstr_pset_other _ _ _ _ (show "csrf" ≠ "code_verifier" by decide),
    pstr_pset_other _ _ _ _ (show "csrf" ≠ "nonce" by decide), pstr_pset_same]

theorem nonce_initView (c e r v) : getNonce (initView c e r v) = e.rnd 1 := by
  unfold initView getNonce
  cases c.pkce <;>
  simp [setIncoming, setVerifier, setNonce, setMain,
    pstr_pset_other _ _ _ _ (show "nonce" ≠ "incoming_path" by decide),
    pstr_pset_other _ _ _ _ (show "nonce" ≠ "code_verifier" by decide), pstr_pset_same]

theorem verifier_initView (c e r v) : getVerifier (initView c e r v) = if c.pkce then e.rnd 2 else [] := by
  unfold initView getVerifier
  cases c.pkce
  · simp only [setIncoming, setNonce, setCSRF, setMain, clearView, Bool.false_eq_true, if_false]
    rw [pstr_pset_other _ _ _ _ (show "code_verifier" ≠ "incoming_path" by decide),
        pstr_pset_other _ _ _ _ (show "code_verifier" ≠ "nonce" by decide),
        pstr_pset_other _ _ _ _ (show "code_verifier" ≠ "csrf" by decide)]
    rfl
  · simp only [setIncoming, setVerifier, setMain, if_true]
    rw [pstr_pset_other _ _ _ _ (show "code_verifier" ≠ "incoming_path" by decide), pstr_pset_same]

theorem created_initView (c e r v) : pint (initView c e r v).main "created_at" = none := by
  unfold initView
  cases c.pkce
  · simp only [setIncoming, setNonce, setCSRF, setMain, clearView, Bool.false_eq_true, if_false]
    rw [pint_pset_other _ _ _ _ (show "created_at" ≠ "incoming_path" by decide),
        pint_pset_other _ _ _ _ (show "created_at" ≠ "nonce" by decide),
        pint_pset_other _ _ _ _ (show "created_at" ≠ "csrf" by decide)]
    rfl
  · simp only [setIncoming, setVerifier, setNonce, setCSRF, setMain, clearView, if_true]
    rw [pint_pset_other _ _ _ _ (show "created_at" ≠ "incoming_path" by decide),
        pint_pset_other _ _ _ _ (show "created_at" ≠ "code_verifier" by decide),
        pint_pset_other _ _ _ _ (show "created_at" ≠ "nonce" by decide),
        pint_pset_other _ _ _ _ (show "created_at" ≠ "csrf" by decide)]
    rfl

theorem chunks_initView (c e r v k) : (initView c e r v).chunks k = (v.chunks k).map (fun _ => []) := by
  unfold initView
  cases c.pkce <;> simp [setIncoming, setVerifier, setNonce, setCSRF, setMain, clearView]

/-- **C17 (not logged in).** A request (not excluded, not callback/logout) whose cookies do not amount to an
    authenticated session and hold no refresh token — in particular when the session cookies are undecodable,
    made under another key, or over-age — is answered with a login redirect, makes no provider call, and every
    cookie of the session is replaced by a fresh authentic one (or deleted): no unusable cookie survives. -/
theorem unusable_redirects (c : Cfg) (e : Env) (r : Req) (j : Jar) (fuel : Nat)
    (hpath : excludedPath c r.path = false ∧ r.path ≠ c.logout ∧ r.path ≠ c.callback)
    (hno : getAuth c.maxAge e.now (getSession c.maxAge j e.now fuel) = false)
    (hrt : getToken e.decompress (getSession c.maxAge j e.now fuel) .refresh = []) :
    (serveJar c e r j fuel).1.resp =
      .redirectAuth (e.rnd 0) (e.rnd 1) (if c.pkce then e.s256 (e.rnd 2) else []) (r.base ++ c.callback) ∧
    (serveJar c e r j fuel).1.calls = [] ∧
    (serveJar c e r j fuel).2 = saveApply (initView c e r (getSession c.maxAge j e.now fuel)) ∧
    ∀ n, (serveJar c e r j fuel).2 n ≠ some .bad := by
  have hcl : classify c e (getSession c.maxAge j e.now fuel) = (false, false, false) := by
    unfold classify
    simp [hno, hrt]
  have hout : (serveJar c e r j fuel).1 = initiate c e r (getSession c.maxAge j e.now fuel) [] [] := by
    unfold serveJar serveV
    simp only [hpath.1, Bool.false_eq_true, if_false, if_neg hpath.2.1, if_neg hpath.2.2, hcl]
  have hjar : (serveJar c e r j fuel).2 = saveApply (initView c e r (getSession c.maxAge j e.now fuel)) := by
    show applySaves j (serveJar c e r j fuel).1.saved = _
    rw [hout, initiate_eq]
    simp [applySaves]
  refine ⟨by rw [hout, initiate_eq], by rw [hout, initiate_eq], hjar, ?_⟩
  intro n
  rw [hjar]
  cases n with
  | main => simp [saveApply]
  | whole k => simp [saveApply]
  | chunk k i =>
    simp only [saveApply]
    cases ((initView c e r (getSession c.maxAge j e.now fuel)).chunks k)[i]? <;> simp

/-- **C17 (healing) / C03.** From whatever view the first request found, the callback that follows the login
    redirect — carrying the state of that redirect and a code for which a conformant provider returns a verified
    ID token with the nonce of that redirect and an allowed e-mail — establishes the session; the token endpoint
    is contacted exactly once, with the verifier of that initiation. -/
theorem login_completes (c : Cfg) (e1 e2 : Env) (r1 r2 : Req) (v : View) (fuel : Nat) (idRaw rt em : Str)
    (hfuel : ∀ k, (v.chunks k).length ≤ fuel)
    (hst : e1.rnd 0 ≠ []) (hno : e1.rnd 1 ≠ [])
    (hq : r2.qError = [] ∧ r2.qState = e1.rnd 0 ∧ r2.qCode ≠ [])
    (hx : e2.exchange r2.qCode (if c.pkce then e1.rnd 2 else []) (r2.base ++ c.callback) = .ok idRaw rt)
    (hv : e2.verifyTok idRaw = true) (hp : (e2.tok idRaw).parses = true)
    (hn : (e2.tok idRaw).nonce = some (e1.rnd 1)) (hemail : (e2.tok idRaw).email = some em) (hem : em ≠ [])
    (hdom : isAllowedDomain c.allowDomains em = true) :
    let j1 := saveApply (initView c e1 r1 v)
    let vcb := getSession c.maxAge j1 e2.now fuel
    vcb = initView c e1 r1 v ∧
    (handleCallback c e2 r2 vcb).saved = [loggedInView c e2 vcb idRaw rt em] ∧
    (handleCallback c e2 r2 vcb).calls = [Call.exchange r2.qCode (if c.pkce then e1.rnd 2 else []) (r2.base ++ c.callback)] ∧
    (handleCallback c e2 r2 vcb).resp = .redirectLocal (postLoginTarget c vcb) := by
  intro j1 vcb
  have hlen : ∀ k, ((initView c e1 r1 v).chunks k).length ≤ fuel := by
    intro k; rw [chunks_initView]; simpa using hfuel k
  have hview : vcb = initView c e1 r1 v := by
    show getSession c.maxAge (saveApply _) e2.now fuel = _
    rw [getSession_saved _ _ _ _ hlen]
    unfold ageCheck
    rw [created_initView]
  refine ⟨hview, ?_⟩
  rw [hview]
  have hcs := csrf_initView c e1 r1 v
  have hnn := nonce_initView c e1 r1 v
  have hve := verifier_initView c e1 r1 v
  unfold handleCallback
  have h1 : ¬ r2.qError ≠ [] := by simp [hq.1]
  have h2 : ¬ r2.qState = [] := by rw [hq.2.1]; exact hst
  have h3 : ¬ getCSRF (initView c e1 r1 v) = [] := by rw [hcs]; exact hst
  have h4 : ¬ r2.qState ≠ getCSRF (initView c e1 r1 v) := by rw [hcs, hq.2.1]; simp
  simp only [h1, h2, h3, h4, hq.2.2, if_false, hve, hx]
  unfold cbToken
  have h5 : ¬ e1.rnd 1 ≠ getNonce (initView c e1 r1 v) := by rw [hnn]; simp
  have h6 : ¬ getNonce (initView c e1 r1 v) = [] := by rw [hnn]; exact hno
  simp only [hv, hp, hn, hno, h5, h6, hemail, Option.getD_some, hem, hdom, Bool.not_true, Bool.false_eq_true, if_false]
  exact ⟨trivial, trivial, trivial⟩

end Oidc.World
