import Oidc.Proofs.World2
import Oidc.Proofs.Handler4
namespace Oidc.World
open Oidc Oidc.Session Oidc.Handler Oidc.Strings

/-! ### C03 — the state kept in the browser is the one of its most recent initiation (or none) -/

theorem csrf_setToken (comp : Str → Str) (maxSz) (v : View) (k t) : getCSRF (setToken comp maxSz v k t) = getCSRF v := by
  unfold getCSRF; rw [main_setToken]

theorem csrf_setEmail (v : View) (em : Str) : getCSRF (setEmail v em) = getCSRF v := by
  simp [getCSRF, setEmail, setMain, pstr_pset_other _ _ _ _ (show "csrf" ≠ "email" by decide)]

theorem csrf_setAuthenticated (v : View) (now : Int) (b : Bool) : getCSRF (setAuthenticated v now b) = getCSRF v := by
  unfold getCSRF setAuthenticated
  cases b
  · simp [pstr_pset_other _ _ _ _ (show "csrf" ≠ "authenticated" by decide)]
  · simp [pstr_pset_other _ _ _ _ (show "csrf" ≠ "authenticated" by decide),
      pstr_pset_other _ _ _ _ (show "csrf" ≠ "created_at" by decide)]

theorem csrf_refreshedView (c e v idRaw rt' em) : getCSRF (refreshedView c e v idRaw rt' em) = getCSRF v := by
  unfold refreshedView
  rw [csrf_setAuthenticated, csrf_setToken, csrf_setToken, csrf_setEmail]

theorem csrf_clear (v : View) : getCSRF (clearView v) = [] := (clear_main_fields v).2.1

/-- what the last view saved by a response says about the stored state, relative to the view the request found -/
inductive CsrfAfter (v : View) (o : Out) : Prop
  | unchangedNoSave : o.saved = [] → (∀ a b c d, o.resp ≠ .redirectAuth a b c d) → CsrfAfter v o
  | kept (vl : View) : o.saved.getLast? = some vl → getCSRF vl = getCSRF v →
      (∀ a b c d, o.resp ≠ .redirectAuth a b c d) → CsrfAfter v o
  | cleared (vl : View) : o.saved.getLast? = some vl → getCSRF vl = [] →
      (∀ a b c d, o.resp ≠ .redirectAuth a b c d) → CsrfAfter v o
  | issued (vl : View) (st no ch ru : Str) : o.saved.getLast? = some vl → o.resp = .redirectAuth st no ch ru →
      getCSRF vl = st → CsrfAfter v o

theorem initiate_csrfAfter (c e r v earlier calls) (v0 : View) : CsrfAfter v0 (initiate c e r v earlier calls) := by
  rw [initiate_eq]
  refine .issued (initView c e r v) _ _ _ _ ?_ rfl (csrf_initView c e r v)
  simp

theorem errPage_ne_redirect (r code msg a b c d) : errPage r code msg ≠ .redirectAuth a b c d := by
  unfold errPage; split <;> simp

theorem authorized_csrfAfter (c e r v earlier calls) (v0 : View)
    (he : earlier = [] ∨ ∃ vl, earlier = [vl] ∧ getCSRF vl = getCSRF v0) :
    CsrfAfter v0 (authorized c e r v earlier calls) := by
  have base : ∀ resp : Resp, (∀ a b c d, resp ≠ .redirectAuth a b c d) →
      CsrfAfter v0 { resp := resp, saved := earlier, calls := calls } := by
    intro resp hr
    rcases he with h | ⟨vl, h, hc⟩
    · exact .unchangedNoSave h hr
    · exact .kept vl (by simp [h]) hc hr
  unfold authorized
  simp only
  repeat' split
  all_goals first
    | exact initiate_csrfAfter _ _ _ _ _ _ _
    | exact base _ (fun a b c d => errPage_ne_redirect _ _ _ a b c d)
    | exact base _ (fun a b c d => by simp)

theorem refreshFail_csrfAfter (c e r calls earlier vcur) (v0 : View)
    (he : earlier = [] ∨ ∃ vl, earlier = [vl] ∧ getCSRF vl = getCSRF v0) :
    CsrfAfter v0 (refreshFail c e r calls earlier vcur) := by
  unfold refreshFail
  split
  · rcases he with h | ⟨vl, h, hc⟩
    · exact .unchangedNoSave h (fun a b c d => by simp)
    · exact .kept vl (by simp [h]) hc (fun a b c d => by simp)
  · exact initiate_csrfAfter _ _ _ _ _ _ _

theorem refreshFlow_csrfAfter (c e r v) : CsrfAfter v (refreshFlow c e r v) := by
  unfold refreshFlow
  simp only
  repeat' split
  all_goals first
    | exact refreshFail_csrfAfter _ _ _ _ _ _ _ (Or.inl rfl)
    | exact refreshFail_csrfAfter _ _ _ _ _ _ _ (Or.inr ⟨_, rfl, csrf_setToken _ _ _ _ _⟩)
    | exact authorized_csrfAfter _ _ _ _ _ _ _ (Or.inr ⟨_, rfl, csrf_refreshedView _ _ _ _ _ _⟩)

theorem cbErr_csrfAfter (r code msg calls) (v : View) : CsrfAfter v (cbErr r code msg calls) :=
  .unchangedNoSave rfl (fun a b c d => errPage_ne_redirect _ _ _ a b c d)

theorem cbToken_csrfAfter (c e r v idRaw rt calls) : CsrfAfter v (cbToken c e r v idRaw rt calls) := by
  unfold cbToken
  repeat' split
  all_goals first
    | exact cbErr_csrfAfter _ _ _ _ _
    | exact .cleared (loggedInView c e v idRaw rt (((e.tok idRaw).email).getD [])) (by simp) (loggedIn_consumed c e v idRaw rt _).1 (fun a b c d => by simp)

theorem handleCallback_csrfAfter (c e r v) : CsrfAfter v (handleCallback c e r v) := by
  unfold handleCallback
  repeat' split
  all_goals first
    | exact cbErr_csrfAfter _ _ _ _ _
    | exact cbToken_csrfAfter _ _ _ _ _ _ _

theorem handleLogout_csrfAfter (c e r v) : CsrfAfter v (handleLogout c e r v) := by
  have h := logout_spec c e r v
  refine .cleared (clearView v) (by rw [h.1]; simp) (csrf_clear v) ?_
  intro a b c' d
  rcases h.2.2 with ⟨_, _, h3⟩ | ⟨_, h3⟩ <;> rw [h3] <;> simp

/-- **C03 (history).** After any response, the state stored in the browser is: the state just issued, if the response
    is a login redirect (and then the `state` of that very redirect); otherwise the one stored before, or none.
    By induction over the browser's history it is therefore always the state of the *most recent* initiation or
    empty — which is what `callback_binds` compares the callback's `state` parameter with. -/
theorem csrf_after_step (c : Cfg) (e : Env) (r : Req) (v : View) : CsrfAfter v (serveV c e r v) := by
  unfold serveV
  split
  · exact .unchangedNoSave rfl (fun a b c d => by simp)
  split
  · exact handleLogout_csrfAfter _ _ _ _
  split
  · exact handleCallback_csrfAfter _ _ _ _
  rcases hcl : classify c e v with ⟨au, nr, ex⟩
  cases ex with
  | true => exact initiate_csrfAfter _ _ _ _ _ _ _
  | false =>
    cases au <;> cases nr <;> simp only
    · exact initiate_csrfAfter _ _ _ _ _ _ _
    · split
      · exact refreshFlow_csrfAfter _ _ _ _
      · exact initiate_csrfAfter _ _ _ _ _ _ _
    · exact authorized_csrfAfter _ _ _ _ _ _ _ (Or.inl rfl)
    · split
      · exact refreshFlow_csrfAfter _ _ _ _
      · exact initiate_csrfAfter _ _ _ _ _ _ _

end Oidc.World
