import Oidc.Proofs.World3
namespace Oidc.World
open Oidc Oidc.Session Oidc.Handler Oidc.Strings

/-! ### C01 — an "authenticated" main cookie is minted only by a successful login or refresh -/

def flag (v : View) : Bool := pbool v.main "authenticated"

theorem flag_setToken (comp : Str → Str) (maxSz) (v : View) (k t) : flag (setToken comp maxSz v k t) = flag v := by
  unfold flag; rw [main_setToken]

theorem flag_setEmail (v : View) (em : Str) : flag (setEmail v em) = flag v := by
  simp [flag, setEmail, setMain, pbool_pset_other _ _ _ _ (show "authenticated" ≠ "email" by decide)]

theorem flag_setAuthFalse (v : View) (now : Int) : flag (setAuthenticated v now false) = false := by
  simp [flag, setAuthenticated, pbool_pset_same]

theorem flag_clear (v : View) : flag (clearView v) = false := by simp [flag, clearView, pbool, pget]

theorem flag_initView (c e r v) : flag (initView c e r v) = false := by
  unfold flag initView
  cases c.pkce
  · simp only [setIncoming, setNonce, setCSRF, setMain, clearView, Bool.false_eq_true, if_false]
    rw [pbool_pset_other _ _ _ _ (show "authenticated" ≠ "incoming_path" by decide),
        pbool_pset_other _ _ _ _ (show "authenticated" ≠ "nonce" by decide),
        pbool_pset_other _ _ _ _ (show "authenticated" ≠ "csrf" by decide)]
    rfl
  · simp only [setIncoming, setVerifier, setNonce, setCSRF, setMain, clearView, if_true]
    rw [pbool_pset_other _ _ _ _ (show "authenticated" ≠ "incoming_path" by decide),
        pbool_pset_other _ _ _ _ (show "authenticated" ≠ "code_verifier" by decide),
        pbool_pset_other _ _ _ _ (show "authenticated" ≠ "nonce" by decide),
        pbool_pset_other _ _ _ _ (show "authenticated" ≠ "csrf" by decide)]
    rfl

/-- where a saved view with the flag set can come from -/
inductive FlagOrigin (c : Cfg) (e : Env) (v : View) (vl : View) : Prop
  | inherited : flag v = true → FlagOrigin c e v vl
  | login (idRaw rt em) : vl = loggedInView c e v idRaw rt em → e.verifyTok idRaw = true → FlagOrigin c e v vl
  | refresh (idRaw rt' em) : vl = refreshedView c e v idRaw rt' em → e.verifyTok idRaw = true → FlagOrigin c e v vl

def AllOrigin (c : Cfg) (e : Env) (v : View) (o : Out) : Prop :=
  ∀ vl ∈ o.saved, flag vl = true → FlagOrigin c e v vl

theorem initiate_origin (c e r v earlier calls) (v0 : View)
    (he : ∀ vl ∈ earlier, flag vl = true → FlagOrigin c e v0 vl) : AllOrigin c e v0 (initiate c e r v earlier calls) := by
  intro vl hvl hf
  rw [initiate_eq] at hvl
  simp only [List.mem_append, List.mem_cons, List.not_mem_nil, or_false] at hvl
  rcases hvl with h | h | h
  · exact he vl h hf
  · rw [h, flag_clear] at hf; cases hf
  · rw [h, flag_initView] at hf; cases hf

theorem authorized_origin (c e r v earlier calls) (v0 : View)
    (he : ∀ vl ∈ earlier, flag vl = true → FlagOrigin c e v0 vl) : AllOrigin c e v0 (authorized c e r v earlier calls) := by
  unfold authorized
  simp only
  repeat' split
  all_goals first
    | exact initiate_origin _ _ _ _ _ _ _ he
    | exact he

theorem refreshFail_origin (c e r calls earlier vcur) (v0 : View)
    (he : ∀ vl ∈ earlier, flag vl = true → FlagOrigin c e v0 vl) : AllOrigin c e v0 (refreshFail c e r calls earlier vcur) := by
  unfold refreshFail
  split
  · exact he
  · exact initiate_origin _ _ _ _ _ _ _ he

theorem refreshFlow_origin (c e r v) : AllOrigin c e v (refreshFlow c e r v) := by
  have hnone : ∀ vl ∈ ([] : List View), flag vl = true → FlagOrigin c e v vl := fun _ h => by cases h
  have hkeep : ∀ vl ∈ [setToken e.compress c.maxSz v .refresh []], flag vl = true → FlagOrigin c e v vl := by
    intro vl h hf
    simp only [List.mem_singleton] at h
    rw [h, flag_setToken] at hf
    exact .inherited hf
  unfold refreshFlow
  simp only
  cases hr : e.refresh (getToken e.decompress v .refresh) with
  | error ig =>
    cases ig
    · exact refreshFail_origin _ _ _ _ _ _ _ hnone
    · exact refreshFail_origin _ _ _ _ _ _ _ hkeep
  | ok idRaw rt' =>
    simp only
    by_cases h1 : idRaw = []
    · simp only [h1, if_true]; exact refreshFail_origin _ _ _ _ _ _ _ hnone
    simp only [h1, if_false]
    cases h2 : e.verifyTok idRaw with
    | false => simp only [Bool.not_false, if_true]; exact refreshFail_origin _ _ _ _ _ _ _ hnone
    | true =>
    simp only [Bool.not_true, Bool.false_eq_true, if_false]
    cases h3 : (e.tok idRaw).parses with
    | false => simp only [Bool.not_false, if_true]; exact refreshFail_origin _ _ _ _ _ _ _ hnone
    | true =>
    simp only [Bool.not_true, Bool.false_eq_true, if_false]
    cases h4 : (e.tok idRaw).email with
    | none => exact refreshFail_origin _ _ _ _ _ _ _ hnone
    | some em =>
      simp only
      by_cases h5 : em = []
      · simp only [h5, if_true]; exact refreshFail_origin _ _ _ _ _ _ _ hnone
      simp only [h5, if_false]
      apply authorized_origin
      intro vl h _
      simp only [List.mem_singleton] at h
      exact .refresh idRaw rt' em h h2

theorem cbToken_origin (c e r v idRaw rt calls) : AllOrigin c e v (cbToken c e r v idRaw rt calls) := by
  intro vl hvl hf
  by_cases hs : (cbToken c e r v idRaw rt calls).saved = []
  · rw [hs] at hvl; cases hvl
  · obtain ⟨a1, _, _, _, _, a6, _⟩ := cbToken_saved c e r v idRaw rt calls hs
    rw [a6] at hvl
    simp only [List.mem_singleton] at hvl
    exact .login idRaw rt _ hvl a1

theorem handleCallback_origin (c e r v) : AllOrigin c e v (handleCallback c e r v) := by
  unfold handleCallback
  repeat' split
  all_goals first
    | (intro vl hvl _; simp [cbErr] at hvl)
    | exact cbToken_origin _ _ _ _ _ _ _

/-- **C01 (provenance).** Whatever a request presents, every view the handler saves with the authenticated flag set is
    either the product of a successful login (callback whose ID token passed `VerifyToken`), the product of a
    successful refresh (likewise), or carries over a flag the presented session already had.  Since presented `good`
    cookies were themselves saved by the deployment (C09), by induction over any history and any re-assembly of
    jars every authenticated main cookie goes back to a successful login or refresh. -/
theorem flag_origin (c : Cfg) (e : Env) (r : Req) (v : View) : AllOrigin c e v (serveV c e r v) := by
  have hnone : ∀ vl ∈ ([] : List View), flag vl = true → FlagOrigin c e v vl := fun _ h => by cases h
  unfold serveV
  split
  · intro vl h; cases h
  split
  · intro vl hvl hf
    rw [(logout_spec c e r v).1] at hvl
    simp only [List.mem_singleton] at hvl
    rw [hvl, flag_clear] at hf; cases hf
  split
  · exact handleCallback_origin _ _ _ _
  rcases hcl : classify c e v with ⟨au, nr, ex⟩
  cases ex with
  | true =>
    simp only
    apply initiate_origin
    intro vl h hf
    simp only [List.mem_singleton] at h
    rw [h, flag_setEmail, flag_setToken, flag_setToken, flag_setAuthFalse] at hf; cases hf
  | false =>
    cases au <;> cases nr <;> simp only
    · exact initiate_origin _ _ _ _ _ _ _ hnone
    · split
      · exact refreshFlow_origin _ _ _ _
      · exact initiate_origin _ _ _ _ _ _ _ hnone
    · exact authorized_origin _ _ _ _ _ _ _ hnone
    · split
      · exact refreshFlow_origin _ _ _ _
      · exact initiate_origin _ _ _ _ _ _ _ hnone

end Oidc.World
