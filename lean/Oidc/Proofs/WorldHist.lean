import Oidc.Proofs.World4
import Oidc.Proofs.World3
import Oidc.Proofs.Handler
/-!
# Histories of one browser: where an authenticated jar comes from (C01) and which login a callback completes (C03)

`runBrowser` threads a jar through any list of requests, each with its own environment (clock, provider answers,
randomness, any instance).  The one-step theorems `flag_origin` and `csrf_after_step` are lifted here to every history by
induction over that list.
-/
namespace Oidc.World
open Oidc Oidc.Session Oidc.Handler Oidc.Strings

/-! ## C01 — the authenticated flag of a jar is only ever produced by a login or refresh with a verified ID token -/

/-- authenticated flag of the main cookie held by a jar (undecodable or absent: false) -/
def jarFlag (j : Jar) : Bool := pbool (loadOne j .main) "authenticated"

theorem flag_ageCheck (maxAge now : Int) (v : View) (h : flag (ageCheck maxAge now v) = true) : flag v = true := by
  unfold ageCheck at h
  split at h
  · split at h
    · rw [flag_clear] at h; exact absurd h (by simp)
    · exact h
  · exact h

theorem flag_getSession (maxAge : Int) (j : Jar) (now : Int) (fuel : Nat)
    (h : flag (getSession maxAge j now fuel) = true) : jarFlag j = true :=
  flag_ageCheck maxAge now (rawView j fuel) h

theorem jarFlag_saveApply (v : View) : jarFlag (saveApply v) = flag v := rfl

/-- the step's output stores a view that a login (callback) or a refresh grant produced from an ID token that passed
    `VerifyToken` in that very step -/
def LoginEvent (c : Cfg) (e : Env) (o : Out) : Prop :=
  ∃ vl ∈ o.saved, ∃ (v : View) (idRaw rt em : Str), e.verifyTok idRaw = true ∧
    (vl = loggedInView c e v idRaw rt em ∨ vl = refreshedView c e v idRaw rt em)

/-- one step: a jar whose flag is set after the response had it set before, or the step was a login event -/
theorem jarFlag_step (c : Cfg) (e : Env) (r : Req) (j : Jar) (fuel : Nat)
    (h : jarFlag (serveJar c e r j fuel).2 = true) : jarFlag j = true ∨ LoginEvent c e (serveJar c e r j fuel).1 := by
  unfold serveJar at h ⊢
  simp only at h ⊢
  unfold applySaves at h
  split at h
  · rename_i vl hl
    rw [jarFlag_saveApply] at h
    have hm := List.mem_of_getLast? hl
    rcases flag_origin c e r (getSession c.maxAge j e.now fuel) vl hm h with hi | ⟨idRaw, rt, em, hv, ht⟩ | ⟨idRaw, rt, em, hv, ht⟩
    · exact .inl (flag_getSession _ _ _ _ hi)
    · exact .inr ⟨vl, hm, _, idRaw, rt, em, ht, .inl hv⟩
    · exact .inr ⟨vl, hm, _, idRaw, rt, em, ht, .inr hv⟩
  · exact .inl h

theorem runBrowser_cons (c : Cfg) (fuel : Nat) (j : Jar) (e : Env) (r : Req) (t : List (Env × Req)) :
    runBrowser c fuel j ((e, r) :: t) =
      ((runBrowser c fuel (serveJar c e r j fuel).2 t).1,
       (serveJar c e r j fuel).1 :: (runBrowser c fuel (serveJar c e r j fuel).2 t).2) := rfl

theorem runBrowser_length (c : Cfg) (fuel : Nat) (steps : List (Env × Req)) (j : Jar) :
    (runBrowser c fuel j steps).2.length = steps.length := by
  induction steps generalizing j with
  | nil => rfl
  | cons x t ih => obtain ⟨e, r⟩ := x; rw [runBrowser_cons]; simp [ih]

/-- **C01 (history).** Whatever the browser sends and whatever the environments answer, if the jar carries the
    authenticated flag after a history that started from a jar without it (no cookies, or any unauthenticated jar), then
    some step of that history was a login event: a callback or refresh whose ID token passed `VerifyToken`. -/
theorem flag_needs_login (c : Cfg) (fuel : Nat) (steps : List (Env × Req)) (j : Jar)
    (h0 : jarFlag j = false) (h : jarFlag (runBrowser c fuel j steps).1 = true) :
    ∃ p ∈ steps.zip (runBrowser c fuel j steps).2, LoginEvent c p.1.1 p.2 := by
  induction steps generalizing j with
  | nil => simp [runBrowser] at h; rw [h0] at h; exact absurd h (by simp)
  | cons x t ih =>
    obtain ⟨e, r⟩ := x
    rw [runBrowser_cons] at h ⊢
    simp only at h ⊢
    cases hf : jarFlag (serveJar c e r j fuel).2 with
    | false =>
      obtain ⟨p, hp, hl⟩ := ih _ hf h
      exact ⟨p, by simp [hp], hl⟩
    | true =>
      rcases jarFlag_step c e r j fuel hf with h1 | h1
      · rw [h0] at h1; exact absurd h1 (by simp)
      · exact ⟨((e, r), (serveJar c e r j fuel).1), by simp, h1⟩

/-- **C01 (history, the gate).** A request is forwarded at the end of a history that started from an unauthenticated jar
    only if an earlier step of that history was a login event (and then the stored ID token is accepted by the verifier at
    this moment, no provider call), or this very step performed one refresh grant whose ID token passed `VerifyToken`. -/
theorem forward_needs_login (c : Cfg) (fuel : Nat) (pre : List (Env × Req)) (j0 : Jar) (e : Env) (r : Req)
    (hd : List (Str × Str)) (h0 : jarFlag j0 = false)
    (hf : (serveJar c e r (runBrowser c fuel j0 pre).1 fuel).1.resp = .forward hd) :
    ((∃ p ∈ pre.zip (runBrowser c fuel j0 pre).2, LoginEvent c p.1.1 p.2) ∧
       (e.tok (getToken e.decompress (getSession c.maxAge (runBrowser c fuel j0 pre).1 e.now fuel) .access)).verdict e.now = .accept ∧
       (serveJar c e r (runBrowser c fuel j0 pre).1 fuel).1.calls = [])
    ∨ (∃ idRaw rt', e.refresh (getToken e.decompress (getSession c.maxAge (runBrowser c fuel j0 pre).1 e.now fuel) .refresh) = .ok idRaw rt' ∧
         e.verifyTok idRaw = true ∧
         (serveJar c e r (runBrowser c fuel j0 pre).1 fuel).1.calls =
           [Call.refresh (getToken e.decompress (getSession c.maxAge (runBrowser c fuel j0 pre).1 e.now fuel) .refresh)]) := by
  have hg := gate c e r (getSession c.maxAge (runBrowser c fuel j0 pre).1 e.now fuel) hd hf
  obtain ⟨_, _, _, hg⟩ := hg
  rcases hg with ⟨ha, _, _, hv, _, _, _, hc⟩ | ⟨idRaw, rt', em, hr, hv, _, _, _, _, _, hc⟩
  · left
    refine ⟨?_, hv, hc⟩
    have hfl : flag (getSession c.maxAge (runBrowser c fuel j0 pre).1 e.now fuel) = true := by
      unfold getAuth at ha
      simp only [Bool.and_eq_true] at ha
      exact ha.1
    exact flag_needs_login c fuel pre j0 h0 (flag_getSession _ _ _ _ hfl)
  · right
    exact ⟨idRaw, rt', hr, hv, hc⟩

/-- non-vacuity: the empty jar is unauthenticated -/
example : jarFlag (fun _ => none) = false := rfl

end Oidc.World

namespace Oidc.World
open Oidc Oidc.Session Oidc.Handler Oidc.Strings

/-! ## C03 — a callback completes the *most recent* initiation of its browser: state, nonce and verifier together -/

/-- the login parameters a view holds: (state, nonce, PKCE verifier) -/
def lp (v : View) : Str × Str × Str := (getCSRF v, getNonce v, getVerifier v)
/-- the login parameters the main cookie of a jar holds -/
def jarLp (j : Jar) : Str × Str × Str := (pstr (loadOne j .main) "csrf", pstr (loadOne j .main) "nonce", pstr (loadOne j .main) "code_verifier")

theorem jarLp_saveApply (v : View) : jarLp (saveApply v) = lp v := rfl

theorem lp_setToken (comp : Str → Str) (maxSz) (v : View) (k t) : lp (setToken comp maxSz v k t) = lp v := by
  unfold lp getCSRF getNonce getVerifier; rw [main_setToken]

theorem lp_setEmail (v : View) (em : Str) : lp (setEmail v em) = lp v := by
  simp [lp, getCSRF, getNonce, getVerifier, setEmail, setMain,
    pstr_pset_other _ _ _ _ (show "csrf" ≠ "email" by decide),
    pstr_pset_other _ _ _ _ (show "nonce" ≠ "email" by decide),
    pstr_pset_other _ _ _ _ (show "code_verifier" ≠ "email" by decide)]

theorem lp_setAuthenticated (v : View) (now : Int) (b : Bool) : lp (setAuthenticated v now b) = lp v := by
  unfold lp getCSRF getNonce getVerifier setAuthenticated
  cases b
  · simp [pstr_pset_other _ _ _ _ (show "csrf" ≠ "authenticated" by decide),
      pstr_pset_other _ _ _ _ (show "nonce" ≠ "authenticated" by decide),
      pstr_pset_other _ _ _ _ (show "code_verifier" ≠ "authenticated" by decide)]
  · simp [pstr_pset_other _ _ _ _ (show "csrf" ≠ "authenticated" by decide),
      pstr_pset_other _ _ _ _ (show "csrf" ≠ "created_at" by decide),
      pstr_pset_other _ _ _ _ (show "nonce" ≠ "authenticated" by decide),
      pstr_pset_other _ _ _ _ (show "nonce" ≠ "created_at" by decide),
      pstr_pset_other _ _ _ _ (show "code_verifier" ≠ "authenticated" by decide),
      pstr_pset_other _ _ _ _ (show "code_verifier" ≠ "created_at" by decide)]

theorem lp_refreshedView (c e v idRaw rt' em) : lp (refreshedView c e v idRaw rt' em) = lp v := by
  unfold refreshedView
  rw [lp_setAuthenticated, lp_setToken, lp_setToken, lp_setEmail]

/-- the parameters an initiation in environment `e` draws -/
def issuedLp (c : Cfg) (e : Env) : Str × Str × Str := (e.rnd 0, e.rnd 1, if c.pkce then e.rnd 2 else [])

theorem lp_initView (c e r v) : lp (initView c e r v) = issuedLp c e := by
  unfold lp issuedLp; rw [csrf_initView, nonce_initView, verifier_initView]

def isInit (o : Out) : Bool := match o.resp with | .redirectAuth .. => true | _ => false

/-- what the last view saved by a response says about the stored login parameters, relative to the view the request found -/
inductive LpAfter (c : Cfg) (e : Env) (v : View) (o : Out) : Prop
  | unchangedNoSave : o.saved = [] → isInit o = false → LpAfter c e v o
  | kept (vl : View) : o.saved.getLast? = some vl → lp vl = lp v → isInit o = false → LpAfter c e v o
  | cleared (vl : View) : o.saved.getLast? = some vl → getCSRF vl = [] → isInit o = false → LpAfter c e v o
  | issued (vl : View) (ru : Str) : o.saved.getLast? = some vl →
      o.resp = .redirectAuth (e.rnd 0) (e.rnd 1) (if c.pkce then e.s256 (e.rnd 2) else []) ru →
      lp vl = issuedLp c e → LpAfter c e v o

theorem initiate_lpAfter (c e r v earlier calls) (v0 : View) : LpAfter c e v0 (initiate c e r v earlier calls) := by
  rw [initiate_eq]
  refine .issued (initView c e r v) _ ?_ rfl (lp_initView c e r v)
  simp

theorem isInit_errPage (r code msg saved calls) : isInit { resp := errPage r code msg, saved := saved, calls := calls } = false := by
  unfold errPage isInit; cases r.json <;> rfl

theorem authorized_lpAfter (c e r v earlier calls) (v0 : View)
    (he : earlier = [] ∨ ∃ vl, earlier = [vl] ∧ lp vl = lp v0) :
    LpAfter c e v0 (authorized c e r v earlier calls) := by
  have base : ∀ resp : Resp, isInit { resp := resp, saved := earlier, calls := calls } = false →
      LpAfter c e v0 { resp := resp, saved := earlier, calls := calls } := by
    intro resp hr
    rcases he with h | ⟨vl, h, hc⟩
    · exact .unchangedNoSave h hr
    · exact .kept vl (by simp [h]) hc hr
  unfold authorized
  simp only
  repeat' split
  all_goals first
    | exact initiate_lpAfter _ _ _ _ _ _ _
    | exact base _ (isInit_errPage _ _ _ _ _)
    | exact base _ rfl

theorem refreshFail_lpAfter (c e r calls earlier vcur) (v0 : View)
    (he : earlier = [] ∨ ∃ vl, earlier = [vl] ∧ lp vl = lp v0) :
    LpAfter c e v0 (refreshFail c e r calls earlier vcur) := by
  unfold refreshFail
  split
  · rcases he with h | ⟨vl, h, hc⟩
    · exact .unchangedNoSave h rfl
    · exact .kept vl (by simp [h]) hc rfl
  · exact initiate_lpAfter _ _ _ _ _ _ _

theorem refreshFlow_lpAfter (c e r v) : LpAfter c e v (refreshFlow c e r v) := by
  unfold refreshFlow
  simp only
  repeat' split
  all_goals first
    | exact refreshFail_lpAfter _ _ _ _ _ _ _ (Or.inl rfl)
    | exact refreshFail_lpAfter _ _ _ _ _ _ _ (Or.inr ⟨_, rfl, lp_setToken _ _ _ _ _⟩)
    | exact authorized_lpAfter _ _ _ _ _ _ _ (Or.inr ⟨_, rfl, lp_refreshedView _ _ _ _ _ _⟩)

theorem cbErr_lpAfter (c e) (r code msg calls) (v : View) : LpAfter c e v (cbErr r code msg calls) :=
  .unchangedNoSave rfl (isInit_errPage _ _ _ _ _)

theorem cbToken_lpAfter (c e r v idRaw rt calls) : LpAfter c e v (cbToken c e r v idRaw rt calls) := by
  unfold cbToken
  repeat' split
  all_goals first
    | exact cbErr_lpAfter _ _ _ _ _ _ _
    | exact .cleared (loggedInView c e v idRaw rt (((e.tok idRaw).email).getD [])) (by simp) (loggedIn_consumed c e v idRaw rt _).1 rfl

theorem handleCallback_lpAfter (c e r v) : LpAfter c e v (handleCallback c e r v) := by
  unfold handleCallback
  repeat' split
  all_goals first
    | exact cbErr_lpAfter _ _ _ _ _ _ _
    | exact cbToken_lpAfter _ _ _ _ _ _ _

theorem handleLogout_lpAfter (c e r v) : LpAfter c e v (handleLogout c e r v) := by
  have h := logout_spec c e r v
  refine .cleared (clearView v) (by rw [h.1]; simp) (csrf_clear v) ?_
  unfold isInit
  rcases h.2.2 with ⟨_, _, h3⟩ | ⟨_, h3⟩ <;> rw [h3]

/-- one step, all three login parameters -/
theorem lp_after_step (c : Cfg) (e : Env) (r : Req) (v : View) : LpAfter c e v (serveV c e r v) := by
  unfold serveV
  split
  · exact .unchangedNoSave rfl rfl
  split
  · exact handleLogout_lpAfter _ _ _ _
  split
  · exact handleCallback_lpAfter _ _ _ _
  rcases hcl : classify c e v with ⟨au, nr, ex⟩
  cases ex with
  | true => exact initiate_lpAfter _ _ _ _ _ _ _
  | false =>
    cases au <;> cases nr <;> simp only
    · exact initiate_lpAfter _ _ _ _ _ _ _
    · split
      · exact refreshFlow_lpAfter _ _ _ _
      · exact initiate_lpAfter _ _ _ _ _ _ _
    · exact authorized_lpAfter _ _ _ _ _ _ _ (Or.inl rfl)
    · split
      · exact refreshFlow_lpAfter _ _ _ _
      · exact initiate_lpAfter _ _ _ _ _ _ _

end Oidc.World

namespace Oidc.World
open Oidc Oidc.Session Oidc.Handler Oidc.Strings

theorem lp_ageCheck (maxAge now : Int) (v : View) :
    lp (ageCheck maxAge now v) = lp v ∨ getCSRF (ageCheck maxAge now v) = [] := by
  unfold ageCheck
  split
  · split
    · exact .inr (csrf_clear v)
    · exact .inl rfl
  · exact .inl rfl

theorem lp_getSession (maxAge : Int) (j : Jar) (now : Int) (fuel : Nat) :
    lp (getSession maxAge j now fuel) = jarLp j ∨ getCSRF (getSession maxAge j now fuel) = [] :=
  lp_ageCheck maxAge now (rawView j fuel)

theorem isInit_of_resp {o : Out} {a b c d : Str} (h : o.resp = .redirectAuth a b c d) : isInit o = true := by
  unfold isInit; rw [h]

/-- one step at the level of jars -/
theorem jarLp_step (c : Cfg) (e : Env) (r : Req) (j : Jar) (fuel : Nat) :
    (isInit (serveJar c e r j fuel).1 = true ∧ jarLp (serveJar c e r j fuel).2 = issuedLp c e) ∨
    (isInit (serveJar c e r j fuel).1 = false ∧
      ((jarLp (serveJar c e r j fuel).2).1 = [] ∨ jarLp (serveJar c e r j fuel).2 = jarLp j)) := by
  unfold serveJar
  simp only
  unfold applySaves
  rcases lp_after_step c e r (getSession c.maxAge j e.now fuel) with ⟨hs, hi⟩ | ⟨vl, hl, hk, hi⟩ | ⟨vl, hl, hk, hi⟩ | ⟨vl, ru, hl, hr, hk⟩
  · right; refine ⟨hi, .inr ?_⟩; rw [hs]; rfl
  · right; refine ⟨hi, ?_⟩
    rw [hl]; simp only [jarLp_saveApply]
    rcases lp_getSession c.maxAge j e.now fuel with h | h
    · exact .inr (hk.trans h)
    · left; rw [hk]; exact h
  · right; refine ⟨hi, .inl ?_⟩
    rw [hl]; simp only [jarLp_saveApply]; exact hk
  · left; refine ⟨isInit_of_resp hr, ?_⟩
    rw [hl]; simp only [jarLp_saveApply]; exact hk

/-- parameters of the most recent initiation in a history (oldest step first) -/
def lastInit (c : Cfg) : List (Env × Out) → Option (Str × Str × Str)
  | [] => none
  | (e, o) :: t =>
    match lastInit c t with
    | some x => some x
    | none => if isInit o then some (issuedLp c e) else none

/-- the history of a browser: the environment and the answer of each step, oldest first -/
def hist (c : Cfg) (fuel : Nat) (j : Jar) (steps : List (Env × Req)) : List (Env × Out) :=
  (steps.map (·.1)).zip (runBrowser c fuel j steps).2

theorem hist_cons (c : Cfg) (fuel : Nat) (j : Jar) (e : Env) (r : Req) (t : List (Env × Req)) :
    hist c fuel j ((e, r) :: t) = (e, (serveJar c e r j fuel).1) :: hist c fuel (serveJar c e r j fuel).2 t := by
  unfold hist; rw [runBrowser_cons]; rfl

/-- **C03 (history).** After any history of one browser — any requests, any environments — the login parameters
    (state, nonce, verifier) held by its jar are: none (empty state); or those the jar started with, if no step of the
    history was a login redirect; or exactly the triple issued by the *most recent* login redirect of the history. -/
theorem lp_history (c : Cfg) (fuel : Nat) (steps : List (Env × Req)) (j : Jar) :
    (jarLp (runBrowser c fuel j steps).1).1 = [] ∨
    (lastInit c (hist c fuel j steps) = none ∧ jarLp (runBrowser c fuel j steps).1 = jarLp j) ∨
    lastInit c (hist c fuel j steps) = some (jarLp (runBrowser c fuel j steps).1) := by
  induction steps generalizing j with
  | nil => right; left; exact ⟨rfl, rfl⟩
  | cons x t ih =>
    obtain ⟨e, r⟩ := x
    rw [hist_cons, runBrowser_cons]
    simp only
    rcases ih (serveJar c e r j fuel).2 with h | ⟨hn, hj⟩ | h
    · exact .inl h
    · rcases jarLp_step c e r j fuel with ⟨hi, hl⟩ | ⟨hi, hl | hl⟩
      · right; right
        simp only [lastInit, hn, hi, if_true]
        rw [hj, hl]
      · left; rw [hj]; exact hl
      · right; left
        refine ⟨?_, hj.trans hl⟩
        simp only [lastInit, hn, hi]
        simp
    · right; right
      simp only [lastInit, h]

theorem serveV_callback (c : Cfg) (e : Env) (r : Req) (v : View)
    (hx : excludedPath c r.path = false) (hl : r.path ≠ c.logout) (hc : r.path = c.callback) :
    serveV c e r v = handleCallback c e r v := by
  unfold serveV
  rw [if_neg (by rw [hx]; simp), if_neg hl, if_pos hc]

/-- **C03 (history, the binding).** If, at the end of any history that started from a jar holding no state (no cookies, a
    logged-out or freshly logged-in browser), a callback request stores a session, then the history contains a login
    redirect, and for the most recent one — issued in environment `eI` — the callback's `state` is the state of that
    redirect (non-empty), the code was exchanged with that redirect's verifier in exactly one token-endpoint call, and the
    ID token passed `VerifyToken` and carries that redirect's nonce. -/
theorem callback_completes_latest (c : Cfg) (fuel : Nat) (pre : List (Env × Req)) (j0 : Jar) (e : Env) (r : Req)
    (h0 : (jarLp j0).1 = [])
    (hx : excludedPath c r.path = false) (hl : r.path ≠ c.logout) (hc : r.path = c.callback)
    (hs : (serveJar c e r (runBrowser c fuel j0 pre).1 fuel).1.saved ≠ []) :
    ∃ st no ver, lastInit c (hist c fuel j0 pre) = some (st, no, ver) ∧
      r.qState = st ∧ st ≠ [] ∧ no ≠ [] ∧
      ∃ idRaw rt, e.exchange r.qCode ver (r.base ++ c.callback) = .ok idRaw rt ∧ e.verifyTok idRaw = true ∧
        (e.tok idRaw).nonce = some no ∧
        (serveJar c e r (runBrowser c fuel j0 pre).1 fuel).1.calls = [Call.exchange r.qCode ver (r.base ++ c.callback)] := by
  unfold serveJar at hs ⊢
  simp only at hs ⊢
  rw [serveV_callback c e r _ hx hl hc] at hs ⊢
  obtain ⟨_, hne, hst, _, idRaw, rt, hex, hv, ⟨n, hn, hnn, hnv⟩, hcalls, _⟩ := callback_binds c e r _ hs
  have hlp : lp (getSession c.maxAge (runBrowser c fuel j0 pre).1 e.now fuel) = jarLp (runBrowser c fuel j0 pre).1 := by
    rcases lp_getSession c.maxAge (runBrowser c fuel j0 pre).1 e.now fuel with h | h
    · exact h
    · rw [← hst] at h; exact absurd h hne
  have hcs : (jarLp (runBrowser c fuel j0 pre).1).1 = r.qState := by rw [← hlp, hst]; rfl
  refine ⟨r.qState, n, getVerifier (getSession c.maxAge (runBrowser c fuel j0 pre).1 e.now fuel), ?_, rfl, hne, hnn, idRaw, rt, hex, hv, hn, hcalls⟩
  rcases lp_history c fuel pre j0 with h | ⟨_, h⟩ | h
  · rw [hcs] at h; exact absurd h hne
  · rw [h] at hcs; rw [hcs] at h0; exact absurd h0 hne
  · rw [h, ← hlp]
    simp only [lp, hst, hnv]

/-- non-vacuity: the empty jar holds no state -/
example : (jarLp (fun _ => none)).1 = [] := rfl

end Oidc.World
