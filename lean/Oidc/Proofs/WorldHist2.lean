import Oidc.Proofs.WorldHist
/-! # C04 over histories: an established session keeps being forwarded, request after request, instance after instance -/
namespace Oidc.World
open Oidc Oidc.Session Oidc.Handler Oidc.Strings

/-- what C04 assumes about one later request and the instance (`Env`) that serves it -/
structure Later (c : Cfg) (e0 : Env) (idRaw em : Str) (p : Env × Req) : Prop where
  rt : ∀ t, p.1.decompress (p.1.compress t) = t
  ne : ∀ t, p.1.compress t ≠ []
  codec : e0.compress = p.1.compress ∧ e0.decompress = p.1.decompress
  path : excludedPath c p.2.path = false ∧ p.2.path ≠ c.logout ∧ p.2.path ≠ c.callback
  pre : p.2.preflight = false
  age : p.1.now - e0.now ≤ c.maxAge
  parses : (p.1.tok idRaw).parses = true
  acc : (p.1.tok idRaw).verdict p.1.now = .accept
  grace : ¬ (p.1.tok idRaw).exp < p.1.now + c.grace
  dom : isAllowedDomain c.allowDomains em = true
  role : roleGate c p.1 idRaw = true

/-- **C04 (history).** From the jar a successful login left in the browser, *every* request of *any* sequence of later
    requests — each served by its own environment (any instance, any cache or limiter state, any clock within the session
    lifetime and more than the grace period before the token's expiry) — is forwarded with the session's identity and
    without a provider call, and the jar at the end is still the jar of the login. -/
theorem session_continues_history (c : Cfg) (e0 : Env) (v0 : View) (idRaw rt em : Str) (fuel : Nat)
    (hm : 0 < c.maxSz) (hid : idRaw ≠ []) (hem : em ≠ [])
    (hfuel : ∀ k, ((loggedInView c e0 v0 idRaw rt em).chunks k).length ≤ fuel)
    (steps : List (Env × Req)) (hall : ∀ p ∈ steps, Later c e0 idRaw em p) :
    (runBrowser c fuel (saveApply (loggedInView c e0 v0 idRaw rt em)) steps).1 = saveApply (loggedInView c e0 v0 idRaw rt em) ∧
    ∀ p ∈ steps.zip (runBrowser c fuel (saveApply (loggedInView c e0 v0 idRaw rt em)) steps).2,
      p.2.resp = .forward (downstreamHdrs c p.1.1 p.1.2 em idRaw) ∧ p.2.calls = [] ∧ p.2.saved = [] := by
  induction steps with
  | nil => exact ⟨rfl, by simp [runBrowser]⟩
  | cons x t ih =>
    obtain ⟨e1, r⟩ := x
    have hx : Later c e0 idRaw em (e1, r) := hall _ (by simp)
    have h1 := session_continues c e0 e1 r v0 idRaw rt em fuel hx.rt hx.ne hx.codec hm hfuel hx.path hx.pre hx.age hid
      hx.parses hx.acc hx.grace hem hx.dom hx.role
    have hjar : (serveJar c e1 r (saveApply (loggedInView c e0 v0 idRaw rt em)) fuel).2 = saveApply (loggedInView c e0 v0 idRaw rt em) := by
      show applySaves _ (serveJar c e1 r _ fuel).1.saved = _
      rw [h1.2.2]; rfl
    rw [runBrowser_cons, hjar]
    have iht := ih (fun p hp => hall p (by simp [hp]))
    refine ⟨iht.1, ?_⟩
    intro p hp
    simp only [List.zip_cons_cons, List.mem_cons] at hp
    rcases hp with rfl | hp
    · exact h1
    · exact iht.2 p hp

end Oidc.World

namespace Oidc.World
open Oidc Oidc.Session Oidc.Handler Oidc.Strings

/-- the jar a logout response leaves in the browser carries neither the authenticated flag nor any login parameters -/
theorem jar_after_logout (c : Cfg) (e0 : Env) (r0 : Req) (j : Jar) (fuel : Nat)
    (hlogout : excludedPath c r0.path = false ∧ r0.path = c.logout) :
    jarFlag (serveJar c e0 r0 j fuel).2 = false ∧ (jarLp (serveJar c e0 r0 j fuel).2).1 = [] := by
  have hj1 : (serveJar c e0 r0 j fuel).2 = saveApply (clearView (getSession c.maxAge j e0.now fuel)) := by
    unfold serveJar serveV
    simp only [hlogout.1, Bool.false_eq_true, if_false, if_pos hlogout.2]
    have := (logout_spec c e0 r0 (getSession c.maxAge j e0.now fuel)).1
    simp only [this, applySaves, List.getLast?_singleton]
  rw [hj1, jarFlag_saveApply, jarLp_saveApply]
  exact ⟨flag_clear _, csrf_clear (getSession c.maxAge j e0.now fuel)⟩

/-- **C11 (history).** After the response to a logout request has been applied to the browser's cookies, whatever the
    browser then sends and whatever any instance answers: a request is forwarded only if, *after the logout*, a login
    event happened (a callback whose ID token passed `VerifyToken`) — a refresh is impossible unless such a login stored a
    refresh token first, which the second disjunct of the gate covers for the very step. -/
theorem after_logout_forward_needs_login (c : Cfg) (fuel : Nat) (e0 : Env) (r0 : Req) (j : Jar)
    (hlogout : excludedPath c r0.path = false ∧ r0.path = c.logout)
    (post : List (Env × Req)) (e : Env) (r : Req) (hd : List (Str × Str))
    (hf : (serveJar c e r (runBrowser c fuel (serveJar c e0 r0 j fuel).2 post).1 fuel).1.resp = .forward hd) :
    (∃ p ∈ post.zip (runBrowser c fuel (serveJar c e0 r0 j fuel).2 post).2, LoginEvent c p.1.1 p.2) ∨
    (∃ idRaw rt', e.refresh (getToken e.decompress (getSession c.maxAge (runBrowser c fuel (serveJar c e0 r0 j fuel).2 post).1 e.now fuel) .refresh) = .ok idRaw rt' ∧
        e.verifyTok idRaw = true) := by
  rcases forward_needs_login c fuel post _ e r hd (jar_after_logout c e0 r0 j fuel hlogout).1 hf with ⟨h, _, _⟩ | ⟨idRaw, rt', h1, h2, _⟩
  · exact .inl h
  · exact .inr ⟨idRaw, rt', h1, h2⟩

end Oidc.World
