import Oidc.Proofs.WorldHist2
/-!
# C11 over histories: after a logout nothing is forwarded until a callback completes a new login

A jar is *dead* when its main cookie lacks the authenticated flag and it yields no refresh token.  With no refresh
token in the presented session, the only views `ServeHTTP` ever saves are dead ones or the view a successful callback
stores; so a dead jar stays dead over any history without such a callback, and a dead jar is never forwarded.
-/
namespace Oidc.World
open Oidc Oidc.Session Oidc.Handler Oidc.Strings

/-- a view without the authenticated flag that yields no refresh token -/
def Dead (d : Str → Str) (v : View) : Prop := flag v = false ∧ getToken d v .refresh = []

/-- the step stored the session of a callback whose ID token passed `VerifyToken` -/
def CallbackLogin (c : Cfg) (e : Env) (v : View) (vl : View) : Prop :=
  ∃ idRaw rt em, vl = loggedInView c e v idRaw rt em ∧ e.verifyTok idRaw = true

theorem dead_clear (d) (v : View) : Dead d (clearView v) := ⟨flag_clear v, getToken_clear d v .refresh⟩

theorem getToken_initView (d) (c e r v k) : getToken d (initView c e r v) k = [] := by
  unfold initView
  cases c.pkce <;>
  simp only [setIncoming, setVerifier, setNonce, setCSRF, getToken_setMain, getToken_clear, Bool.false_eq_true, if_false, if_true]

theorem dead_initView (d) (c e r v) : Dead d (initView c e r v) := ⟨flag_initView c e r v, getToken_initView d c e r v .refresh⟩

variable {c : Cfg} {e : Env}

theorem initiate_dead (r v earlier calls) (v0 : View)
    (he : ∀ vl ∈ earlier, Dead e.decompress vl ∨ CallbackLogin c e v0 vl) :
    ∀ vl ∈ (initiate c e r v earlier calls).saved, Dead e.decompress vl ∨ CallbackLogin c e v0 vl := by
  intro vl hvl
  rw [initiate_eq] at hvl
  simp only [List.mem_append, List.mem_cons, List.not_mem_nil, or_false] at hvl
  rcases hvl with h | h | h
  · exact he vl h
  · rw [h]; exact .inl (dead_clear _ _)
  · rw [h]; exact .inl (dead_initView _ _ _ _ _)

theorem authorized_dead (r v earlier calls) (v0 : View)
    (he : ∀ vl ∈ earlier, Dead e.decompress vl ∨ CallbackLogin c e v0 vl) :
    ∀ vl ∈ (authorized c e r v earlier calls).saved, Dead e.decompress vl ∨ CallbackLogin c e v0 vl := by
  unfold authorized
  simp only
  repeat' split
  all_goals first
    | exact initiate_dead _ _ _ _ _ he
    | exact he

/-- with no refresh token in the presented session, every view a response saves is dead or a callback login -/
theorem serveV_noRT (hrt : ∀ t, e.decompress (e.compress t) = t) (hne : ∀ t, e.compress t ≠ []) (hm : 0 < c.maxSz)
    (r : Req) (v : View) (hv : getToken e.decompress v .refresh = []) :
    ∀ vl ∈ (serveV c e r v).saved, Dead e.decompress vl ∨ CallbackLogin c e v vl := by
  have hnone : ∀ vl ∈ ([] : List View), Dead e.decompress vl ∨ CallbackLogin c e v vl := fun _ h => by cases h
  unfold serveV
  split
  · intro vl h; cases h
  split
  · intro vl h
    rw [(logout_spec c e r v).1] at h
    simp only [List.mem_singleton] at h
    rw [h]; exact .inl (dead_clear _ _)
  split
  · intro vl hvl
    by_cases hs : (handleCallback c e r v).saved = []
    · rw [hs] at hvl; cases hvl
    · obtain ⟨_, _, _, _, idRaw, rt, _, hver, _, _, hsv⟩ := callback_binds c e r v hs
      rw [hsv] at hvl
      simp only [List.mem_singleton] at hvl
      exact .inr ⟨idRaw, rt, _, hvl, hver⟩
  rcases hcl : classify c e v with ⟨au, nr, ex⟩
  cases ex with
  | true =>
    simp only
    apply initiate_dead
    intro vl h
    simp only [List.mem_singleton] at h
    left
    rw [h]
    refine ⟨?_, ?_⟩
    · rw [flag_setEmail, flag_setToken, flag_setToken, flag_setAuthFalse]
    · unfold setEmail
      rw [getToken_setMain, getToken_setToken e.compress e.decompress hrt hne c.maxSz hm]
  | false =>
    cases au <;> cases nr <;> simp only
    · exact initiate_dead _ _ _ _ _ hnone
    · rw [if_neg (by simp [hv])]; exact initiate_dead _ _ _ _ _ hnone
    · exact authorized_dead _ _ _ _ _ hnone
    · rw [if_neg (by simp [hv])]; exact initiate_dead _ _ _ _ _ hnone

/-- a dead view is never forwarded -/
theorem dead_not_forward (r : Req) (v : View) (hd : List (Str × Str)) (hv : Dead e.decompress v)
    (hf : (serveV c e r v).resp = .forward hd) : False := by
  obtain ⟨hx, hl, hcb, _⟩ := gate c e r v hd hf
  unfold serveV at hf
  rw [if_neg (by rw [hx]; simp), if_neg hl, if_neg hcb] at hf
  rcases hcl : classify c e v with ⟨au, nr, ex⟩
  rw [hcl] at hf
  cases ex with
  | true => exact not_forward_of (initiate_not_forward _ _ _ _ _ _) hf
  | false =>
    cases au <;> cases nr <;> simp only at hf
    · exact not_forward_of (initiate_not_forward _ _ _ _ _ _) hf
    · rw [if_neg (by simp [hv.2])] at hf; exact not_forward_of (initiate_not_forward _ _ _ _ _ _) hf
    · have ha := (classify_au c e v (by rw [hcl])).1
      unfold getAuth at ha
      simp only [Bool.and_eq_true] at ha
      have hfl : flag v = true := ha.1
      rw [hv.1] at hfl; cases hfl
    · rw [if_neg (by simp [hv.2])] at hf; exact not_forward_of (initiate_not_forward _ _ _ _ _ _) hf

end Oidc.World

namespace Oidc.World
open Oidc Oidc.Session Oidc.Handler Oidc.Strings

/-- a jar whose main cookie lacks the authenticated flag and which yields no refresh token -/
def DeadJar (d : Str → Str) (fuel : Nat) (j : Jar) : Prop := jarFlag j = false ∧ getToken d (rawView j fuel) .refresh = []

theorem dead_getSession (d : Str → Str) (maxAge : Int) (j : Jar) (now : Int) (fuel : Nat) (h : DeadJar d fuel j) :
    Dead d (getSession maxAge j now fuel) := by
  unfold getSession ageCheck
  split
  · split
    · exact dead_clear _ _
    · exact ⟨h.1, h.2⟩
  · exact ⟨h.1, h.2⟩

theorem deadJar_saveApply (d : Str → Str) (fuel : Nat) (vl : View) (hv : Dead d vl) (hf : ∀ k, (vl.chunks k).length ≤ fuel) :
    DeadJar d fuel (saveApply vl) := by
  refine ⟨by rw [jarFlag_saveApply]; exact hv.1, ?_⟩
  rw [rawView_saved vl fuel hf]; exact hv.2

/-- one step: a dead jar stays dead unless the step stored a callback login -/
theorem deadJar_step (c : Cfg) (e : Env) (r : Req) (j : Jar) (fuel : Nat)
    (hrt : ∀ t, e.decompress (e.compress t) = t) (hne : ∀ t, e.compress t ≠ []) (hm : 0 < c.maxSz)
    (hd : DeadJar e.decompress fuel j)
    (hfuel : ∀ vl ∈ (serveJar c e r j fuel).1.saved, ∀ k, (vl.chunks k).length ≤ fuel) :
    DeadJar e.decompress fuel (serveJar c e r j fuel).2 ∨
    ∃ vl ∈ (serveJar c e r j fuel).1.saved, CallbackLogin c e (getSession c.maxAge j e.now fuel) vl := by
  have hv := dead_getSession e.decompress c.maxAge j e.now fuel hd
  have hall := serveV_noRT (c := c) (e := e) hrt hne hm r _ hv.2
  unfold serveJar at hfuel ⊢
  simp only at hfuel ⊢
  unfold applySaves
  cases hl : (serveV c e r (getSession c.maxAge j e.now fuel)).saved.getLast? with
  | none => exact .inl hd
  | some vl =>
    have hm' := List.mem_of_getLast? hl
    rcases hall vl hm' with h | h
    · exact .inl (deadJar_saveApply _ _ vl h (hfuel vl hm'))
    · exact .inr ⟨vl, hm', h⟩

/-- the step stored the session of a callback whose ID token passed `VerifyToken` -/
def StepLogin (c : Cfg) (p : (Env × Req) × Out) : Prop := ∃ v, ∃ vl ∈ p.2.saved, CallbackLogin c p.1.1 v vl

/-- what the history theorems assume about the environments: one codec (gzip+base64 is a fixed function), which round-trips -/
def CodecOK (d : Str → Str) (e : Env) : Prop :=
  e.decompress = d ∧ (∀ t, e.decompress (e.compress t) = t) ∧ (∀ t, e.compress t ≠ [])

/-- over any history: a dead jar is dead at the end, or some step stored a callback login -/
theorem dead_history (c : Cfg) (fuel : Nat) (d : Str → Str) (hm : 0 < c.maxSz) (steps : List (Env × Req)) (j : Jar)
    (hd : DeadJar d fuel j) (henv : ∀ p ∈ steps, CodecOK d p.1)
    (hfuel : ∀ o ∈ (runBrowser c fuel j steps).2, ∀ vl ∈ o.saved, ∀ k, (vl.chunks k).length ≤ fuel) :
    DeadJar d fuel (runBrowser c fuel j steps).1 ∨ ∃ p ∈ steps.zip (runBrowser c fuel j steps).2, StepLogin c p := by
  induction steps generalizing j with
  | nil => exact .inl hd
  | cons x t ih =>
    obtain ⟨e, r⟩ := x
    rw [runBrowser_cons] at hfuel ⊢
    simp only at hfuel ⊢
    obtain ⟨hde, hrt, hne⟩ := henv (e, r) (by simp)
    subst hde
    rcases deadJar_step c e r j fuel hrt hne hm hd (fun vl h k => hfuel _ (by simp) vl h k) with h | ⟨vl, hvl, hlog⟩
    · rcases ih _ h (fun p hp => henv p (by simp [hp])) (fun o ho => hfuel o (by simp [ho])) with h2 | ⟨p, hp, hl⟩
      · exact .inl h2
      · exact .inr ⟨p, by simp [hp], hl⟩
    · exact .inr ⟨((e, r), (serveJar c e r j fuel).1), by simp, _, vl, hvl, hlog⟩

/-- the jar a logout response leaves in the browser is dead -/
theorem deadJar_after_logout (c : Cfg) (d : Str → Str) (e0 : Env) (r0 : Req) (j : Jar) (fuel : Nat)
    (hlogout : excludedPath c r0.path = false ∧ r0.path = c.logout) :
    DeadJar d fuel (serveJar c e0 r0 j fuel).2 := by
  have hj1 : (serveJar c e0 r0 j fuel).2 = saveApply (clearView (getSession c.maxAge j e0.now fuel)) := by
    unfold serveJar serveV
    simp only [hlogout.1, Bool.false_eq_true, if_false, if_pos hlogout.2]
    have := (logout_spec c e0 r0 (getSession c.maxAge j e0.now fuel)).1
    simp only [this, applySaves, List.getLast?_singleton]
  rw [hj1]
  apply deadJar_saveApply _ _ _ (dead_clear _ _)
  intro k
  simp only [clearView, List.length_map]
  exact getSession_chunks_le c.maxAge j e0.now fuel k

/-- **C11 (history, full).** After the response to a logout request has been applied to the browser's cookies — whatever
    was stored before, however many chunks — take *any* sequence of further requests of that browser, served by any
    instances.  If a request at the end of it is forwarded, then some request of the sequence was a callback that completed
    a new login (stored the session of an ID token that passed `VerifyToken`). -/
theorem after_logout_no_forward_until_login (c : Cfg) (fuel : Nat) (d : Str → Str) (hm : 0 < c.maxSz)
    (e0 : Env) (r0 : Req) (j : Jar) (hlogout : excludedPath c r0.path = false ∧ r0.path = c.logout)
    (post : List (Env × Req)) (henv : ∀ p ∈ post, CodecOK d p.1)
    (hfuel : ∀ o ∈ (runBrowser c fuel (serveJar c e0 r0 j fuel).2 post).2, ∀ vl ∈ o.saved, ∀ k, (vl.chunks k).length ≤ fuel)
    (e : Env) (r : Req) (hde : e.decompress = d) (hd : List (Str × Str))
    (hf : (serveJar c e r (runBrowser c fuel (serveJar c e0 r0 j fuel).2 post).1 fuel).1.resp = .forward hd) :
    ∃ p ∈ post.zip (runBrowser c fuel (serveJar c e0 r0 j fuel).2 post).2, StepLogin c p := by
  rcases dead_history c fuel d hm post _ (deadJar_after_logout c d e0 r0 j fuel hlogout) henv hfuel with h | h
  · subst hde
    exact (dead_not_forward (c := c) (e := e) r _ hd (dead_getSession _ c.maxAge _ e.now fuel h) hf).elim
  · exact h

end Oidc.World
