import Oidc.Proofs.CodeConfig
import Oidc.Proofs.CodeHandler
import Oidc.Proofs.CodeStrings
import Oidc.Shapes
import Oidc.Proofs.Handler4
import Oidc.Proofs.World4
import Oidc.Proofs.WorldHist
import Oidc.Facts
/-! # C01 — authentication gate (property theorems only)

`serveV c e r v` is `ServeHTTP` on the session view `v` that `GetSession` decoded from the request's cookies; `e` carries
everything outside the handler (clock, meaning of token strings, `VerifyToken`, provider answers, randomness).  Headers
other than those the model's `Req` carries (`json`, `preflight`, the identity/templated names) — in particular `Accept:
text/event-stream` — are not inputs of `serveV` at all; that the code ignores them too is what the correspondence runs
exercise with every header literal the code compares against. -/
namespace Oidc.Props.C01
open Oidc Oidc.Session Oidc.Handler Oidc.World Oidc.Strings

/-- forwarded ⇒ path neither excluded nor callback nor logout, and (a) an authenticated, fresh session whose stored ID token
    parses and is accepted by the verifier now, no provider call, or (b) exactly one refresh grant whose ID token passed
    `VerifyToken`; in both cases the domain and role gates hold and the downstream headers are the derived ones -/
theorem gate (c : Cfg) (e : Env) (r : Req) (v : View) (h : List (Str × Str))
    (hf : (serveV c e r v).resp = .forward h) :
    excludedPath c r.path = false ∧ r.path ≠ c.logout ∧ r.path ≠ c.callback ∧
    ( (getAuth c.maxAge e.now v = true ∧ getToken e.decompress v .access ≠ [] ∧
        (e.tok (getToken e.decompress v .access)).parses = true ∧
        (e.tok (getToken e.decompress v .access)).verdict e.now = .accept ∧
        isAllowedDomain c.allowDomains (getEmail v) = true ∧
        roleGate c e (getToken e.decompress v .access) = true ∧
        h = downstreamHdrs c e r (getEmail v) (getToken e.decompress v .access) ∧
        (serveV c e r v).calls = [])
    ∨ (∃ idRaw rt' em, e.refresh (getToken e.decompress v .refresh) = .ok idRaw rt' ∧
        e.verifyTok idRaw = true ∧ (e.tok idRaw).parses = true ∧ (e.tok idRaw).email = some em ∧ em ≠ [] ∧
        isAllowedDomain c.allowDomains (getEmail (refreshedView c e v idRaw rt' em)) = true ∧
        roleGate c e (getToken e.decompress (refreshedView c e v idRaw rt' em) .access) = true ∧
        (serveV c e r v).calls = [Call.refresh (getToken e.decompress v .refresh)]) ) :=
  Oidc.Handler.gate c e r v h hf

/-- the gate for the request as net/http delivers it: `digest` reads the scheme, the host, the JSON preference and the CORS
    preflight off the headers; whatever headers (any names, any values — Accept, Origin, forwarding headers, anything else), method
    and target a request carries, it is forwarded only under the conditions of `gate` -/
theorem gate_any_request (c : Cfg) (e : Env) (q : RawReq) (v : View) (h : List (Str × Str))
    (hf : (serveV c e (digest q) v).resp = .forward h) :
    excludedPath c q.path = false ∧ q.path ≠ c.logout ∧ q.path ≠ c.callback ∧
    (getAuth c.maxAge e.now v = true ∨ ∃ idRaw rt', e.refresh (getToken e.decompress v .refresh) = .ok idRaw rt' ∧ e.verifyTok idRaw = true) := by
  obtain ⟨h1, h2, h3, h4⟩ := gate c e (digest q) v h hf
  refine ⟨h1, h2, h3, ?_⟩
  rcases h4 with ⟨ha, _⟩ | ⟨idRaw, rt', _, hr, hv, _⟩
  · exact .inl ha
  · exact .inr ⟨idRaw, rt', hr, hv⟩

/-- every other answer on a protected path: login redirect, 403, 401 or the authenticated CORS preflight — never the
    downstream handler -/
theorem protected_answers (c : Cfg) (e : Env) (r : Req) (v : View)
    (hx : excludedPath c r.path = false) (hl : r.path ≠ c.logout) (hc : r.path ≠ c.callback) :
    ProtectedAnswer (serveV c e r v).resp :=
  Oidc.Handler.protected_answers c e r v hx hl hc

/-- callback and logout never invoke the downstream handler -/
theorem callback_not_forward (c : Cfg) (e : Env) (r : Req) (v : View) : (handleCallback c e r v).resp.isForward = false :=
  Oidc.Handler.handleCallback_not_forward c e r v
theorem logout_not_forward (c : Cfg) (e : Env) (r : Req) (v : View) : (handleLogout c e r v).resp.isForward = false :=
  Oidc.Handler.handleLogout_not_forward c e r v

/-- requests under an excluded prefix are passed through unchanged: no cookie written, no provider call -/
theorem excluded_passthrough (c : Cfg) (e : Env) (r : Req) (v : View) (hx : excludedPath c r.path = true) :
    (serveV c e r v).resp = .passthrough ∧ (serveV c e r v).saved = [] ∧ (serveV c e r v).calls = [] :=
  Oidc.Handler.excluded_passthrough c e r v hx

/-- provenance of the authenticated flag: every view saved with the flag set is the product of a successful login, of a
    successful refresh, or inherits the flag of the presented session (whose cookies, being authentic — C09 — were saved by
    the deployment earlier) -/
theorem flag_origin (c : Cfg) (e : Env) (r : Req) (v : View) : AllOrigin c e v (serveV c e r v) :=
  Oidc.World.flag_origin c e r v

/-- an unauthenticated jar (no cookies, undecodable cookies, cleared or over-age session) without refresh token gets the
    login redirect, no provider call, nothing forwarded -/
theorem unauthenticated_redirects (c : Cfg) (e : Env) (r : Req) (j : Jar) (fuel : Nat)
    (hpath : excludedPath c r.path = false ∧ r.path ≠ c.logout ∧ r.path ≠ c.callback)
    (hno : getAuth c.maxAge e.now (getSession c.maxAge j e.now fuel) = false)
    (hrt : getToken e.decompress (getSession c.maxAge j e.now fuel) .refresh = []) :
    (serveJar c e r j fuel).1.resp =
      .redirectAuth (e.rnd 0) (e.rnd 1) (if c.pkce then e.s256 (e.rnd 2) else []) (r.base ++ c.callback) ∧
    (serveJar c e r j fuel).1.calls = [] :=
  ⟨(Oidc.World.unusable_redirects c e r j fuel hpath hno hrt).1, (Oidc.World.unusable_redirects c e r j fuel hpath hno hrt).2.1⟩

/-- **history.** over every sequence of requests of one browser, each in its own environment (time, provider answers,
    randomness, instance): a jar that did not carry the authenticated flag carries it afterwards only if some step of the
    sequence was a login event — a callback or refresh that stored a session made from an ID token that passed `VerifyToken` -/
theorem issued_only_by_login (c : Cfg) (fuel : Nat) (steps : List (Env × Req)) (j : Jar)
    (h0 : jarFlag j = false) (h : jarFlag (runBrowser c fuel j steps).1 = true) :
    ∃ p ∈ steps.zip (runBrowser c fuel j steps).2, LoginEvent c p.1.1 p.2 :=
  Oidc.World.flag_needs_login c fuel steps j h0 h

/-- **history, the gate.** a request is forwarded at the end of such a sequence only if an earlier step was a login event and
    the stored ID token is accepted by the verifier at this moment (no provider call), or this step performed exactly one
    refresh grant whose ID token passed `VerifyToken` -/
theorem forward_needs_login (c : Cfg) (fuel : Nat) (pre : List (Env × Req)) (j0 : Jar) (e : Env) (r : Req)
    (hd : List (Str × Str)) (h0 : jarFlag j0 = false)
    (hf : (serveJar c e r (runBrowser c fuel j0 pre).1 fuel).1.resp = .forward hd) :
    ((∃ p ∈ pre.zip (runBrowser c fuel j0 pre).2, LoginEvent c p.1.1 p.2) ∧
       (e.tok (getToken e.decompress (getSession c.maxAge (runBrowser c fuel j0 pre).1 e.now fuel) .access)).verdict e.now = .accept ∧
       (serveJar c e r (runBrowser c fuel j0 pre).1 fuel).1.calls = [])
    ∨ (∃ idRaw rt', e.refresh (getToken e.decompress (getSession c.maxAge (runBrowser c fuel j0 pre).1 e.now fuel) .refresh) = .ok idRaw rt' ∧
         e.verifyTok idRaw = true ∧
         (serveJar c e r (runBrowser c fuel j0 pre).1 fuel).1.calls =
           [Call.refresh (getToken e.decompress (getSession c.maxAge (runBrowser c fuel j0 pre).1 e.now fuel) .refresh)]) :=
  Oidc.World.forward_needs_login c fuel pre j0 e r hd h0 hf

/-! non-vacuity: the empty jar is unauthenticated and is redirected; an excluded path passes -/
example : jarFlag (fun _ => none) = false := rfl
def exC : Cfg where
  excluded := ["/pub".toList]
  callback := "/cb".toList
  logout := "/cb/logout".toList
  grace := 60
  maxAge := 86400
  pkce := true
  allowDomains := []
  allowRoles := []
  templates := []
  endSession := []
  postLogout := "/".toList
  maxIncoming := 1024
  maxSz := 2000
example (e : Env) (r : Req) (h : r.path = "/pub/x".toList) : (serveV exC e r (getSession 86400 (fun _ => none) e.now 5)).resp = .passthrough := by
  have : excludedPath exC r.path = true := by rw [h]; decide
  exact (excluded_passthrough exC e r _ this).1


/-! obligations against the regenerated shapes: the functions these theorems rest on still have the steps, guards, status
    codes and literals the model was written against (`Oidc/Shapes.lean`) -/
theorem shape_ServeHTTP_ok : Oidc.Shapes.Shape_ServeHTTP := by unfold Oidc.Shapes.Shape_ServeHTTP; rfl
theorem shape_isUserAuthenticated_ok : Oidc.Shapes.Shape_isUserAuthenticated := by unfold Oidc.Shapes.Shape_isUserAuthenticated; rfl
theorem shape_processAuthorizedRequest_ok : Oidc.Shapes.Shape_processAuthorizedRequest := by unfold Oidc.Shapes.Shape_processAuthorizedRequest; rfl

/-! obligations against the regenerated program text: the functions these theorems rest on read, statement for statement, as
    they did when the model was written after them (`Oidc/Shapes.lean`) -/
theorem text_TraefikOidc_determineExcludedURL_ok : Oidc.Shapes.Text_TraefikOidc_determineExcludedURL := by unfold Oidc.Shapes.Text_TraefikOidc_determineExcludedURL; rfl
theorem text_TraefikOidc_VerifyJWTSignatureAndClaims_ok : Oidc.Shapes.Text_TraefikOidc_VerifyJWTSignatureAndClaims := by unfold Oidc.Shapes.Text_TraefikOidc_VerifyJWTSignatureAndClaims; rfl

/-! further obligations against the regenerated program text (`Oidc/Shapes.lean`): constructor wiring and URL builders -/
theorem text_New_ok : Oidc.Shapes.Text_New := by unfold Oidc.Shapes.Text_New; rfl


/-! ## Program text of the helpers these theorems also rest on (constructors, accessors, token endpoint, configuration) -/
theorem text_createStringMap_ok : Oidc.Shapes.Text_createStringMap := by unfold Oidc.Shapes.Text_createStringMap; rfl
theorem text_Config_Validate_ok : Oidc.Shapes.Text_Config_Validate := by unfold Oidc.Shapes.Text_Config_Validate; rfl

/-! ## The same statements about the code itself: the functions below are `Oidc.Generated.Code`, which `tools/go2lean` translates
    from /repo's source, statement by statement, on every run (meaning of the Go constructs: `Oidc/GoLib.lean`) -/
open Oidc.Generated Oidc.CodeRefine in
/-- main.go `determineExcludedURL` as translated is the model's prefix test, whatever order Go ranges over the map in -/
theorem code_determineExcludedURL (t : Go.Inst) (c : Cfg) (p : Str) (h : c.excluded = t.excludedURLs) :
    Code.TraefikOidc_determineExcludedURL t p = excludedPath c p :=
  determineExcludedURL_model t c p h

open Oidc.Generated Oidc.CodeRefine in
theorem code_determineExcludedURL_order (t t' : Go.Inst) (p : Str) (h : ∀ e, e ∈ t.excludedURLs ↔ e ∈ t'.excludedURLs) :
    Code.TraefikOidc_determineExcludedURL t p = Code.TraefikOidc_determineExcludedURL t' p :=
  determineExcludedURL_order t t' p h

open Oidc.Generated Oidc.CodeRefine in
/-- main.go `isUserAuthenticated` as translated is the model's `classify` (session through its getters, `parseJWT` and
    `VerifyJWTSignatureAndClaims` through what the environment says about the token; seconds vs nanoseconds) -/
theorem code_isUserAuthenticated (c : Cfg) (e : Env) (v : View) (t : Go.Inst) (sess : Go.Sess)
    (hA : sess.GetAuthenticated = getAuth c.maxAge e.now v)
    (hR : sess.GetRefreshToken = getToken e.decompress v .refresh)
    (hT : sess.GetAccessToken = getToken e.decompress v .access)
    (hG : t.refreshGracePeriod = c.grace * 1000000000)
    (hP : (t.parseJWT sess.GetAccessToken).2.isNone = (e.tok sess.GetAccessToken).parses)
    (hV : (Code.TraefikOidc_VerifyJWTSignatureAndClaims (e.now * 1000000000) t (t.parseJWT sess.GetAccessToken).1 sess.GetAccessToken).isNone
            = decide ((e.tok sess.GetAccessToken).verdict e.now = .accept))
    (hE : (e.tok sess.GetAccessToken).verdict e.now = .accept →
            ∃ x, Go.asF64 (Go.mapGet (t.parseJWT sess.GetAccessToken).1.Claims "exp".toList) = (x, true) ∧
                 x.trunc = (e.tok sess.GetAccessToken).exp) :
    Code.TraefikOidc_isUserAuthenticated (e.now * 1000000000) t sess = classify c e v :=
  isUserAuthenticated_refines c e v t sess hA hR hT hG hP hV hE


/-! ### the configuration gate, translated from settings.go on every run -/

/-- the excluded prefixes of an accepted configuration begin with `/` and contain neither `..` nor `*` -/
theorem code_validated_excluded_prefixes (c : Go.Config) (h : Oidc.Generated.Code.Config_Validate c = none) :
    ∀ u ∈ c.ExcludedURLs, Go.hasPrefix u ['/'] = true ∧ Go.contains u ['.','.'] = false ∧ Go.contains u ['*'] = false :=
  (Oidc.CodeConfig.Validate_none c h).excluded

/-- everything `Config.Validate` insists on, at once -/
theorem code_validated_config (c : Go.Config) (h : Oidc.Generated.Code.Config_Validate c = none) : Oidc.CodeConfig.Valid c :=
  Oidc.CodeConfig.Validate_none c h

end Oidc.Props.C01
