import Oidc.Proofs.CodeJwt
import Oidc.Shapes
import Oidc.Proofs.Jwt
import Oidc.Facts
/-! # C02 — ID-token verification accepts exactly the correctly signed, in-time tokens (property theorems only)

The model (`Oidc.Jwt.verifyStaged`) performs the checks in the code's order on the *parsed* token; parsing and the
cryptographic check (`sigValid`: the signature verifies over the exact `header.payload` bytes with the key selected by
`kid` under the scheme named by `alg`, exact r‖s length for ES*) are computed by the harness's reference decoders. -/
namespace Oidc.Props.C02
open Oidc Oidc.Jwt

/-- the staged verifier accepts iff the flat statement of the property holds -/
theorem verify_iff (f : Facts) (issuer clientID : String) (keys : List Key) (now : Int) (t : Tok) :
    accept f issuer clientID keys now t = true ↔ Spec f issuer clientID keys now t :=
  accept_iff f issuer clientID keys now t

/-- anything that is not a three-part base64url/JSON token is rejected -/
theorem reject_unparsable (f : Facts) (issuer clientID : String) (keys : List Key) (now : Int) (t : Tok)
    (h : t.parsed = false) : accept f issuer clientID keys now t = false := by
  cases hv : accept f issuer clientID keys now t with
  | false => rfl
  | true => have := ((verify_iff ..).mp hv).1; simp [h] at this

/-- `alg` outside the allow-list (in particular `none`, `HS256`, `HS384`, `HS512`, lower-case or padded names, or a
    non-string / missing `alg`) is rejected -/
theorem reject_alg_not_listed (f : Facts) (issuer clientID : String) (keys : List Key) (now : Int) (t : Tok)
    (h : ∀ a, asStr t.alg = some a → f.supportedAlgs.contains a = false) :
    accept f issuer clientID keys now t = false := by
  cases hv : accept f issuer clientID keys now t with
  | false => rfl
  | true =>
    obtain ⟨_, kid, alg, key, e, i, s, _, halg, _, _, _, hsup, _⟩ := (verify_iff ..).mp hv
    rw [h alg halg] at hsup; cases hsup

/-- key-type confusion: an RS*/PS* name with an EC key, or an ES* name with an RSA key, is rejected -/
theorem reject_family_confusion (f : Facts) (issuer clientID : String) (keys : List Key) (now : Int) (t : Tok)
    (kid alg : String) (key : Key) (hk : asStr t.kid = some kid) (ha : asStr t.alg = some alg)
    (hkey : keys.find? (·.kid == kid) = some key) (hne : familyOfAlg alg ≠ key.fam) :
    accept f issuer clientID keys now t = false := by
  cases hv : accept f issuer clientID keys now t with
  | false => rfl
  | true =>
    obtain ⟨_, kid', alg', key', e, i, s, hk', ha', hkey', _, _, _, hfam, _⟩ := (verify_iff ..).mp hv
    rw [hk] at hk'; cases hk'
    rw [ha] at ha'; cases ha'
    rw [hkey] at hkey'; cases hkey'
    exact absurd hfam hne

/-- unknown, missing or non-string `kid` is rejected -/
theorem reject_unknown_kid (f : Facts) (issuer clientID : String) (keys : List Key) (now : Int) (t : Tok)
    (h : ∀ kid, asStr t.kid = some kid → keys.find? (·.kid == kid) = none) :
    accept f issuer clientID keys now t = false := by
  cases hv : accept f issuer clientID keys now t with
  | false => rfl
  | true =>
    obtain ⟨_, kid, alg, key, e, i, s, hk, _, hkey, _⟩ := (verify_iff ..).mp hv
    rw [h kid hk] at hkey; cases hkey

/-- a signature that does not verify over the exact header.payload bytes is rejected (any change to the header or
    payload text, or to the decoded signature value, makes `sigValid` false — that is the reference check) -/
theorem reject_bad_signature (f : Facts) (issuer clientID : String) (keys : List Key) (now : Int) (t : Tok)
    (h : t.sigValid = false) : accept f issuer clientID keys now t = false := by
  cases hv : accept f issuer clientID keys now t with
  | false => rfl
  | true =>
    obtain ⟨_, kid, alg, key, e, i, s, _, _, _, _, _, _, _, hsig, _⟩ := (verify_iff ..).mp hv
    rw [h] at hsig; cases hsig

/-- wrong claim types: `iss`/`sub` not strings, `exp`/`iat` not numbers, `aud` neither string nor array, `sub` empty -/
theorem reject_wrong_types (f : Facts) (issuer clientID : String) (keys : List Key) (now : Int) (t : Tok)
    (h : asStr t.iss = none ∨ asNum t.exp = none ∨ asNum t.iat = none ∨ asStr t.sub = none ∨ asStr t.sub = some "" ∨
         audOK clientID t.aud = false) :
    accept f issuer clientID keys now t = false := by
  cases hv : accept f issuer clientID keys now t with
  | false => rfl
  | true =>
    obtain ⟨_, kid, alg, key, e, i, s, _, _, _, _, _, _, _, _, hiss, haud, hexp, _, hiat, _, _, hsub, hne⟩ := (verify_iff ..).mp hv
    rcases h with h | h | h | h | h | h
    · rw [h] at hiss; cases hiss
    · rw [h] at hexp; cases hexp
    · rw [h] at hiat; cases hiat
    · rw [h] at hsub; cases hsub
    · rw [h] at hsub; cases hsub; exact absurd rfl hne
    · rw [h] at haud; cases haud

/-- the boundaries: accepted ⇒ `now ≤ exp + skewFuture`, `iat − skewPast ≤ now`, and a numeric `nbf` satisfies `nbf − skewPast ≤ now` -/
theorem time_window (f : Facts) (issuer clientID : String) (keys : List Key) (now : Int) (t : Tok)
    (h : accept f issuer clientID keys now t = true) :
    ∃ e i, asNum t.exp = some e ∧ asNum t.iat = some i ∧ now ≤ e + f.skewFuture ∧ i - f.skewPast ≤ now ∧
      (∀ n, t.nbf = some (.num n) → n - f.skewPast ≤ now) := by
  obtain ⟨_, kid, alg, key, e, i, s, _, _, _, _, _, _, _, _, _, _, hexp, h1, hiat, h2, hnbf, _, _⟩ := (verify_iff ..).mp h
  refine ⟨e, i, hexp, hiat, h1, h2, ?_⟩
  intro n hn
  simp only [hn, nbfClass] at hnbf
  exact hnbf

/-- the instants at which a fixed token is accepted form an interval (used by C04 and C14) -/
theorem accept_interval (f : Facts) (issuer clientID : String) (keys : List Key) (t1 t2 now : Int) (t : Tok)
    (h1 : accept f issuer clientID keys t1 t = true) (h2 : accept f issuer clientID keys t2 t = true)
    (hle1 : t1 ≤ now) (hle2 : now ≤ t2) : accept f issuer clientID keys now t = true :=
  Oidc.Jwt.accept_interval f issuer clientID keys t1 t2 now t h1 h2 hle1 hle2

/-- obligation against the regenerated facts -/
theorem facts_ok : Oidc.Facts.GoodJwt := by decide

/-- with the current code: `none` and the HS* family are not in the allow-list, a wrongly typed `nbf` is rejected -/
theorem current_rejects_none_hs (a : String) (h : a ∈ ["none", "None", "NONE", "HS256", "HS384", "HS512", ""]) :
    Oidc.Current.supportedAlgs.contains a = false := by
  simp only [List.mem_cons, List.not_mem_nil, or_false] at h
  rcases h with h | h | h | h | h | h | h <;> subst h <;> decide

theorem current_nbf_typed : Oidc.Current.nbfTypeChecked = true := by decide

/-! non-vacuity: a concrete token accepted at the boundary instants and rejected one unit outside -/
def exF : Facts := { supportedAlgs := Oidc.Facts.nine, hashAlgs := Oidc.Facts.nine, skewFuture := 120, skewPast := 10, nbfTypeChecked := true }
def exT : Tok := { parsed := true, alg := some (.str "RS256"), kid := some (.str "k"), iss := some (.str "i"), aud := some (.arr [.num 1, .str "c"]),
                   exp := some (.num 1000), iat := some (.num 500), nbf := none, sub := some (.str "u"), sigValid := true }
example : accept exF "i" "c" [⟨"k", .rsa⟩] 1120 exT = true := by decide
example : accept exF "i" "c" [⟨"k", .rsa⟩] 1121 exT = false := by decide
example : accept exF "i" "c" [⟨"k", .rsa⟩] 490 exT = true := by decide
example : accept exF "i" "c" [⟨"k", .rsa⟩] 489 exT = false := by decide
example : accept exF "i" "c" [⟨"k", .ec⟩] 600 exT = false := by decide
example : accept exF "i" "c" [⟨"k", .rsa⟩] 600 { exT with nbf := some (.str "x") } = false := by decide

/-! obligations against the regenerated program text: the functions these theorems rest on read, statement for statement, as
    they did when the model was written after them (`Oidc/Shapes.lean`) -/
theorem text_parseJWT_ok : Oidc.Shapes.Text_parseJWT := by unfold Oidc.Shapes.Text_parseJWT; rfl
theorem text_JWT_Verify_ok : Oidc.Shapes.Text_JWT_Verify := by unfold Oidc.Shapes.Text_JWT_Verify; rfl
theorem text_verifyAudience_ok : Oidc.Shapes.Text_verifyAudience := by unfold Oidc.Shapes.Text_verifyAudience; rfl
theorem text_verifyIssuer_ok : Oidc.Shapes.Text_verifyIssuer := by unfold Oidc.Shapes.Text_verifyIssuer; rfl
theorem text_verifyTimeConstraint_ok : Oidc.Shapes.Text_verifyTimeConstraint := by unfold Oidc.Shapes.Text_verifyTimeConstraint; rfl
theorem text_verifyExpiration_ok : Oidc.Shapes.Text_verifyExpiration := by unfold Oidc.Shapes.Text_verifyExpiration; rfl
theorem text_verifyIssuedAt_ok : Oidc.Shapes.Text_verifyIssuedAt := by unfold Oidc.Shapes.Text_verifyIssuedAt; rfl
theorem text_verifyNotBefore_ok : Oidc.Shapes.Text_verifyNotBefore := by unfold Oidc.Shapes.Text_verifyNotBefore; rfl
theorem text_verifySignature_ok : Oidc.Shapes.Text_verifySignature := by unfold Oidc.Shapes.Text_verifySignature; rfl
theorem text_JWKCache_GetJWKS_ok : Oidc.Shapes.Text_JWKCache_GetJWKS := by unfold Oidc.Shapes.Text_JWKCache_GetJWKS; rfl
theorem text_jwkToPEM_ok : Oidc.Shapes.Text_jwkToPEM := by unfold Oidc.Shapes.Text_jwkToPEM; rfl
theorem text_TraefikOidc_VerifyJWTSignatureAndClaims_ok : Oidc.Shapes.Text_TraefikOidc_VerifyJWTSignatureAndClaims := by unfold Oidc.Shapes.Text_TraefikOidc_VerifyJWTSignatureAndClaims; rfl


/-! ## Program text of the helpers these theorems also rest on (constructors, accessors, token endpoint, configuration) -/
theorem text_TraefikOidc_updateMetadataEndpoints_ok : Oidc.Shapes.Text_TraefikOidc_updateMetadataEndpoints := by unfold Oidc.Shapes.Text_TraefikOidc_updateMetadataEndpoints; rfl
theorem text_TraefikOidc_verifyToken_ok : Oidc.Shapes.Text_TraefikOidc_verifyToken := by unfold Oidc.Shapes.Text_TraefikOidc_verifyToken; rfl
theorem text_fetchJWKS_ok : Oidc.Shapes.Text_fetchJWKS := by unfold Oidc.Shapes.Text_fetchJWKS; rfl
theorem text_rsaJWKToPEM_ok : Oidc.Shapes.Text_rsaJWKToPEM := by unfold Oidc.Shapes.Text_rsaJWKToPEM; rfl
theorem text_ecJWKToPEM_ok : Oidc.Shapes.Text_ecJWKToPEM := by unfold Oidc.Shapes.Text_ecJWKToPEM; rfl

/-! ## The same statements about the code itself: the functions below are `Oidc.Generated.Code`, which `tools/go2lean` translates
    from /repo's source, statement by statement, on every run (meaning of the Go constructs: `Oidc/GoLib.lean`) -/
open Oidc.Generated Oidc.CodeRefine in
/-- jwt.go `JWT.Verify` (with `verifyIssuer`, `verifyAudience`, `verifyExpiration`, `verifyIssuedAt`, `verifyNotBefore`,
    `verifyTimeConstraint`) returns nil exactly when the claims half of the model's verifier accepts the same token -/
theorem code_JWT_Verify (now : Int) (j : Go.JWT) (iss cid : Go.Str) :
    (Code.JWT_Verify now j iss cid).isNone =
      isOk (claimsStage codeFacts (String.ofList iss) (String.ofList cid) now (absTok j)) :=
  JWT_Verify_refines now j iss cid

open Oidc.Generated Oidc.CodeRefine in
/-- the whole verdict: the key/signature half (modelled) accepts and the translated `JWT.Verify` returns nil iff the flat
    statement of the property holds, with the allow-list and the tolerances as the source has them -/
theorem code_verifier_iff (keys : List Key) (now : Int) (j : Go.JWT) (iss cid : Go.Str) (parsed sig : Bool) (kid : Option J) :
    (isOk (sigStage codeFacts keys { absTok j with parsed := parsed, sigValid := sig, kid := kid }) &&
      (Code.JWT_Verify now j iss cid).isNone) = true ↔
    Spec codeFacts (String.ofList iss) (String.ofList cid) keys now { absTok j with parsed := parsed, sigValid := sig, kid := kid } := by
  rw [code_JWT_Verify, ← verify_iff]
  have h : claimsStage codeFacts (String.ofList iss) (String.ofList cid) now (absTok j) =
      claimsStage codeFacts (String.ofList iss) (String.ofList cid) now { absTok j with parsed := parsed, sigValid := sig, kid := kid } := rfl
  rw [h, ← accept_eq]

open Oidc.Generated Oidc.CodeRefine in
/-- the numbers the property names, read off the translated declarations: two minutes after `exp`, ten seconds before
    `iat`/`nbf` (nanoseconds), the nine algorithm names, a wrongly typed `nbf` refused -/
theorem code_parameters :
    codeFacts.skewFuture = 120 * 1000000000 ∧ codeFacts.skewPast = 10 * 1000000000 ∧
    codeFacts.supportedAlgs = Oidc.Facts.nine ∧ codeFacts.nbfTypeChecked = true := by decide

open Oidc.Generated Oidc.CodeRefine in
/-- main.go `VerifyJWTSignatureAndClaims` as translated (key set, `kid`/`alg` typing, key selection by `kid`, JWK conversion,
    signature check, then `JWT.Verify`) returns nil iff the flat statement of the property holds — given only what the two
    cryptographic calls it makes mean: `jwkToPEM` succeeds exactly for supported key types, `verifySignature` returns nil exactly
    when it knows a hash for `alg`, the key's family serves `alg`, and the signature is valid over the token's bytes -/
theorem code_VerifyJWTSignatureAndClaims_iff (now : Int) (t : Go.Inst) (j : Go.JWT) (tok : Go.Str)
    (fam : Go.JWK → Family) (sig : Bool) (jwks : Go.JWKSet)
    (hj : t.getJWKS = (jwks, none))
    (hpem : ∀ k, (t.jwkToPEM (some k)).2.isNone = decide (fam k ≠ .unsupported))
    (hsig : ∀ k alg, (t.verifySignature tok (t.jwkToPEM (some k)).1 alg).isNone =
        (Oidc.Facts.nine.contains (String.ofList alg) && decide (familyOfAlg (String.ofList alg) = fam k) && sig)) :
    Code.TraefikOidc_VerifyJWTSignatureAndClaims now t j tok = none ↔
      Spec codeFacts (String.ofList t.issuerURL) (String.ofList t.clientID) (jwks.Keys.map (absKey fam)) now
        { absTok j with sigValid := sig } := by
  rw [← verify_iff, ← VerifyJWTSignatureAndClaims_refines now t j tok fam sig jwks hj hpem hsig]
  cases Code.TraefikOidc_VerifyJWTSignatureAndClaims now t j tok <;> simp

open Oidc.Generated Oidc.CodeRefine in
/-- when the key set cannot be obtained nothing is accepted -/
theorem code_no_keys_no_accept (now : Int) (t : Go.Inst) (j : Go.JWT) (tok : Go.Str) (jwks : Go.JWKSet) (m : Go.Str)
    (hj : t.getJWKS = (jwks, some m)) : (Code.TraefikOidc_VerifyJWTSignatureAndClaims now t j tok).isSome = true := by
  unfold Code.TraefikOidc_VerifyJWTSignatureAndClaims
  rw [hj]; simp

open Oidc.Generated Oidc.CodeRefine in
/-- jwt.go `numericDateSeconds` as translated (fix F20): a NumericDate claim is read in whole seconds, saturated at ±2^62 — a claim
    beyond the range in which `int64(float64)` is defined is later (earlier) than every clock reading, instead of whatever the
    platform's conversion makes of it; inside the range it is `int64(x)` as before.  The refinement theorems read a token's time
    claims through this function (`absJ`). -/
theorem code_numericDateSeconds (x : Go.F64) :
    Code.numericDateSeconds x = sat x.trunc ∧
    (-4611686018427387904 < x.trunc ∧ x.trunc < 4611686018427387904 → Code.numericDateSeconds x = x.trunc) ∧
    (4611686018427387904 ≤ x.trunc → Code.numericDateSeconds x = 4611686018427387904) ∧
    (x.trunc ≤ -4611686018427387904 → Code.numericDateSeconds x = -4611686018427387904) := by
  refine ⟨numericDateSeconds_eq x, fun h => by rw [numericDateSeconds_eq, sat_id _ h], fun h => ?_, fun h => ?_⟩
  · rw [numericDateSeconds_eq]; unfold sat; simp [h]
  · rw [numericDateSeconds_eq]; unfold sat
    have : ¬ x.trunc ≥ 4611686018427387904 := by omega
    simp [this, h]

open Oidc.Generated Oidc.CodeRefine in
/-- ... so an `iat` or `nbf` beyond the range is refused and an `exp` beyond it is not "expired", at every clock reading a run can
    have (any `now` below 2^62 seconds, in nanoseconds) -/
theorem code_time_claims_beyond_range (now : Int) (x : Go.F64) (hx : 4611686018427387904 ≤ x.trunc)
    (hnow : now < 4611686018427387904 * 1000000000 - Code.ClockSkewTolerancePast) :
    (Code.verifyIssuedAt now x).isSome = true ∧ (Code.verifyNotBefore now x).isSome = true ∧ (Code.verifyExpiration now x).isSome = false := by
  have hs : sat x.trunc = 4611686018427387904 := by unfold sat; simp [hx]
  have hp : Code.ClockSkewTolerancePast = 10000000000 := by decide
  have hf : Code.ClockSkewToleranceFuture = 120000000000 := by decide
  rw [verifyIssuedAt_isSome, verifyNotBefore_isSome, verifyExpiration_isSome, hs]
  rw [hp] at hnow
  refine ⟨decide_eq_true (by rw [hp]; omega), decide_eq_true (by rw [hp]; omega), decide_eq_false (by rw [hf]; omega)⟩

end Oidc.Props.C02
