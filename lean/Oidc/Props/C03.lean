import Oidc.Shapes
import Oidc.Proofs.CodeSession
import Oidc.Proofs.World3
import Oidc.Proofs.WorldHist
import Oidc.Proofs.World2
import Oidc.Facts
/-! # C03 — a login completes only with the state, nonce and PKCE verifier that started it (property theorems only)

`e.rnd 0/1/2` are the fresh state / nonce / verifier drawn at a step; that they come from `crypto/rand` with at least 32
bytes (nonce, verifier) resp. a v4 UUID (state) is the regenerated fact `GoodRandom`; their unpredictability is an
assumption.  `e.s256` is an uninterpreted function (SHA-256 + base64url); the provider compares `s256 verifier` with the
challenge it received — the harness's checking provider does exactly that on the real code. -/
namespace Oidc.Props.C03
open Oidc Oidc.Session Oidc.Handler Oidc.World Oidc.Strings

/-- one callback step: a session is stored only if the `state` parameter equals the non-empty state stored in this browser's
    session, a code is present, the code was exchanged with the verifier stored in the session (exactly one token-endpoint
    call), the ID token passed `VerifyToken`, and its nonce equals the non-empty nonce stored in the session -/
theorem callback_binds (c : Cfg) (e : Env) (r : Req) (v : View) (h : (handleCallback c e r v).saved ≠ []) :
    r.qError = [] ∧ r.qState ≠ [] ∧ r.qState = getCSRF v ∧ r.qCode ≠ [] ∧
    ∃ idRaw rt, e.exchange r.qCode (getVerifier v) (r.base ++ c.callback) = .ok idRaw rt ∧
      e.verifyTok idRaw = true ∧ (∃ n, (e.tok idRaw).nonce = some n ∧ n ≠ [] ∧ n = getNonce v) ∧
      (handleCallback c e r v).calls = [Call.exchange r.qCode (getVerifier v) (r.base ++ c.callback)] ∧
      (handleCallback c e r v).saved = [loggedInView c e v idRaw rt (((e.tok idRaw).email).getD [])] :=
  Oidc.Handler.callback_binds c e r v h

/-- history: after any response the state stored in the browser is the one issued by that very response's login redirect,
    or the one stored before, or none — so by induction it is always the state of the most recent initiation or empty -/
theorem csrf_after_step (c : Cfg) (e : Env) (r : Req) (v : View) : CsrfAfter v (serveV c e r v) :=
  Oidc.World.csrf_after_step c e r v

/-- **history.** after any sequence of requests of one browser (any environments), the (state, nonce, verifier) its jar
    holds is: none; or what the jar started with, if no step was a login redirect; or exactly the triple issued by the
    *most recent* login redirect -/
theorem params_of_latest_initiation (c : Cfg) (fuel : Nat) (steps : List (Env × Req)) (j : Jar) :
    (jarLp (runBrowser c fuel j steps).1).1 = [] ∨
    (lastInit c (hist c fuel j steps) = none ∧ jarLp (runBrowser c fuel j steps).1 = jarLp j) ∨
    lastInit c (hist c fuel j steps) = some (jarLp (runBrowser c fuel j steps).1) :=
  Oidc.World.lp_history c fuel steps j

/-- **history, the binding.** a callback at the end of any such sequence (started from a jar without state) stores a session
    only if the sequence contains a login redirect and, for the most recent one, the callback's `state` is its state, the
    code was exchanged (one call) with its verifier, and the verified ID token carries its nonce -/
theorem callback_completes_latest (c : Cfg) (fuel : Nat) (pre : List (Env × Req)) (j0 : Jar) (e : Env) (r : Req)
    (h0 : (jarLp j0).1 = [])
    (hx : excludedPath c r.path = false) (hl : r.path ≠ c.logout) (hc : r.path = c.callback)
    (hs : (serveJar c e r (runBrowser c fuel j0 pre).1 fuel).1.saved ≠ []) :
    ∃ st no ver, lastInit c (hist c fuel j0 pre) = some (st, no, ver) ∧
      r.qState = st ∧ st ≠ [] ∧ no ≠ [] ∧
      ∃ idRaw rt, e.exchange r.qCode ver (r.base ++ c.callback) = .ok idRaw rt ∧ e.verifyTok idRaw = true ∧
        (e.tok idRaw).nonce = some no ∧
        (serveJar c e r (runBrowser c fuel j0 pre).1 fuel).1.calls = [Call.exchange r.qCode ver (r.base ++ c.callback)] :=
  Oidc.World.callback_completes_latest c fuel pre j0 e r h0 hx hl hc hs

/-- the values placed in the login redirect are the values stored in the cookie: state `rnd 0`, nonce `rnd 1`, and (PKCE) the
    challenge is `s256` of the stored verifier `rnd 2` -/
theorem initiation_stores_what_it_sends (c : Cfg) (e : Env) (r : Req) (v : View) :
    getCSRF (initView c e r v) = e.rnd 0 ∧ getNonce (initView c e r v) = e.rnd 1 ∧
    getVerifier (initView c e r v) = (if c.pkce then e.rnd 2 else []) ∧
    (initiate c e r v [] []).resp = .redirectAuth (e.rnd 0) (e.rnd 1) (if c.pkce then e.s256 (e.rnd 2) else []) (r.base ++ c.callback) :=
  ⟨csrf_initView c e r v, nonce_initView c e r v, verifier_initView c e r v, rfl⟩

/-- state, nonce and verifier are consumed by a successful login … -/
theorem consumed (c : Cfg) (e : Env) (v : View) (idRaw rt em : Str) :
    getCSRF (loggedInView c e v idRaw rt em) = [] ∧ getNonce (loggedInView c e v idRaw rt em) = [] ∧
    getVerifier (loggedInView c e v idRaw rt em) = [] ∧ getIncoming (loggedInView c e v idRaw rt em) = [] :=
  Oidc.Handler.loggedIn_consumed c e v idRaw rt em

/-- … so repeating the callback (or any callback on a session without stored state: before any initiation, after logout)
    creates no session and does not contact the token endpoint -/
theorem replay_rejected (c : Cfg) (e : Env) (r : Req) (v : View) (h : getCSRF v = []) :
    (handleCallback c e r v).calls = [] ∧ (handleCallback c e r v).saved = [] :=
  Oidc.Handler.callback_without_state c e r v h

/-- a callback carrying a provider error, no code, or a code the provider rejects never yields a session -/
theorem no_session_on_error (c : Cfg) (e : Env) (r : Req) (v : View)
    (h : r.qError ≠ [] ∨ r.qCode = [] ∨ (∀ idRaw rt, e.exchange r.qCode (getVerifier v) (r.base ++ c.callback) ≠ .ok idRaw rt)) :
    (handleCallback c e r v).saved = [] := by
  cases hs : (handleCallback c e r v).saved with
  | nil => rfl
  | cons a l =>
    have hne : (handleCallback c e r v).saved ≠ [] := by rw [hs]; simp
    obtain ⟨h1, _, _, h4, idRaw, rt, hx, _⟩ := callback_binds c e r v hne
    rcases h with h | h | h
    · exact absurd h1 h
    · exact absurd h h4
    · exact absurd hx (h idRaw rt)

/-- completeness: initiation followed by the matching callback (own state, a code for which the provider returns a verified
    token carrying that initiation's nonce and an allowed e-mail) establishes the session with exactly one exchange, using the
    verifier of that initiation -/
theorem login_completes (c : Cfg) (e1 e2 : Env) (r1 r2 : Req) (v : View) (fuel : Nat) (idRaw rt em : Str)
    (hfuel : ∀ k, (v.chunks k).length ≤ fuel)
    (hst : e1.rnd 0 ≠ []) (hno : e1.rnd 1 ≠ [])
    (hq : r2.qError = [] ∧ r2.qState = e1.rnd 0 ∧ r2.qCode ≠ [])
    (hx : e2.exchange r2.qCode (if c.pkce then e1.rnd 2 else []) (r2.base ++ c.callback) = .ok idRaw rt)
    (hv : e2.verifyTok idRaw = true) (hp : (e2.tok idRaw).parses = true)
    (hn : (e2.tok idRaw).nonce = some (e1.rnd 1)) (hemail : (e2.tok idRaw).email = some em) (hem : em ≠ [])
    (hdom : isAllowedDomain c.allowDomains em = true) :
    let j1 := saveApply (initView c e1 r1 v)
    let vcb := getSession c.maxAge j1 e2.now fuel
    vcb = initView c e1 r1 v ∧
    (handleCallback c e2 r2 vcb).saved = [loggedInView c e2 vcb idRaw rt em] ∧
    (handleCallback c e2 r2 vcb).calls = [Call.exchange r2.qCode (if c.pkce then e1.rnd 2 else []) (r2.base ++ c.callback)] ∧
    (handleCallback c e2 r2 vcb).resp = .redirectLocal (postLoginTarget c vcb) :=
  Oidc.World.login_completes c e1 e2 r1 r2 v fuel idRaw rt em hfuel hst hno hq hx hv hp hn hemail hem hdom

/-- obligation against the regenerated facts: nonce and verifier are 32 bytes read from crypto/rand (no math/rand in that file) -/
theorem facts_ok : Oidc.Facts.GoodRandom := by decide

/-! obligations against the regenerated shapes: the functions these theorems rest on still have the steps, guards, status
    codes and literals the model was written against (`Oidc/Shapes.lean`) -/
theorem shape_handleCallback_ok : Oidc.Shapes.Shape_handleCallback := by unfold Oidc.Shapes.Shape_handleCallback; rfl
theorem shape_defaultInitiateAuthentication_ok : Oidc.Shapes.Shape_defaultInitiateAuthentication := by unfold Oidc.Shapes.Shape_defaultInitiateAuthentication; rfl

/-! further obligations against the regenerated program text (`Oidc/Shapes.lean`): constructor wiring and URL builders -/
theorem text_TraefikOidc_buildAuthURL_ok : Oidc.Shapes.Text_TraefikOidc_buildAuthURL := by unfold Oidc.Shapes.Text_TraefikOidc_buildAuthURL; rfl


/-! ## Program text of the helpers these theorems also rest on (constructors, accessors, token endpoint, configuration) -/
theorem text_SessionData_GetCSRF_ok : Oidc.Shapes.Text_SessionData_GetCSRF := by unfold Oidc.Shapes.Text_SessionData_GetCSRF; rfl
theorem text_SessionData_SetCSRF_ok : Oidc.Shapes.Text_SessionData_SetCSRF := by unfold Oidc.Shapes.Text_SessionData_SetCSRF; rfl
theorem text_SessionData_GetNonce_ok : Oidc.Shapes.Text_SessionData_GetNonce := by unfold Oidc.Shapes.Text_SessionData_GetNonce; rfl
theorem text_SessionData_SetNonce_ok : Oidc.Shapes.Text_SessionData_SetNonce := by unfold Oidc.Shapes.Text_SessionData_SetNonce; rfl
theorem text_SessionData_GetCodeVerifier_ok : Oidc.Shapes.Text_SessionData_GetCodeVerifier := by unfold Oidc.Shapes.Text_SessionData_GetCodeVerifier; rfl
theorem text_SessionData_SetCodeVerifier_ok : Oidc.Shapes.Text_SessionData_SetCodeVerifier := by unfold Oidc.Shapes.Text_SessionData_SetCodeVerifier; rfl
theorem text_deriveCodeChallenge_ok : Oidc.Shapes.Text_deriveCodeChallenge := by unfold Oidc.Shapes.Text_deriveCodeChallenge; rfl
theorem text_generateCodeVerifier_ok : Oidc.Shapes.Text_generateCodeVerifier := by unfold Oidc.Shapes.Text_generateCodeVerifier; rfl
theorem text_generateNonce_ok : Oidc.Shapes.Text_generateNonce := by unfold Oidc.Shapes.Text_generateNonce; rfl
theorem text_generateSecureRandomString_ok : Oidc.Shapes.Text_generateSecureRandomString := by unfold Oidc.Shapes.Text_generateSecureRandomString; rfl
theorem text_TraefikOidc_ExchangeCodeForToken_ok : Oidc.Shapes.Text_TraefikOidc_ExchangeCodeForToken := by unfold Oidc.Shapes.Text_TraefikOidc_ExchangeCodeForToken; rfl
theorem text_TraefikOidc_exchangeCodeForToken_ok : Oidc.Shapes.Text_TraefikOidc_exchangeCodeForToken := by unfold Oidc.Shapes.Text_TraefikOidc_exchangeCodeForToken; rfl
theorem text_TraefikOidc_exchangeTokens_ok : Oidc.Shapes.Text_TraefikOidc_exchangeTokens := by unfold Oidc.Shapes.Text_TraefikOidc_exchangeTokens; rfl

open Oidc.Generated Oidc.CodeRefine in
/-- session.go's accessors for state, nonce and PKCE verifier as translated: what the callback compares the `state` parameter and the
    ID token's nonce with, and what it presents as verifier, are exactly the strings the initiation stored (the comparison in
    `handleCallback` is then plain string inequality: obligation `Shape_handleCallback`) -/
theorem code_state_nonce_verifier_stored_as_is (sd : Go.SessData) (v : Go.Str) :
    Code.SessionData_GetCSRF (Code.SessionData_SetCSRF sd v) = v ∧
    Code.SessionData_GetNonce (Code.SessionData_SetNonce sd v) = v ∧
    Code.SessionData_GetCodeVerifier (Code.SessionData_SetCodeVerifier sd v) = v :=
  ⟨mainGet_mainSet _ sd v, mainGet_mainSet _ sd v, mainGet_mainSet _ sd v⟩

end Oidc.Props.C03
