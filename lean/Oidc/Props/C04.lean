import Oidc.Proofs.CodeSession
import Oidc.Proofs.CodeHandler
import Oidc.Shapes
import Oidc.Proofs.World
import Oidc.Proofs.WorldHist2
import Oidc.Proofs.Jwt
import Oidc.Facts
/-! # C04 — an established session keeps working (property theorems only)

Several instances sharing a configuration are different `Env`s applied to the same jar: `e1` below is arbitrary (any
instance, any caches, any limiter state) except that it agrees with the deployment on what token strings mean
(`e1.tok`: same provider keys, issuer and client id) and on the compression codec.  The per-request re-verification is
`(e.tok t).verdict e.now`, i.e. `JWT.Verify` + signature check only — no limiter, no token cache, no revocation list, no
replay bookkeeping (that a `jti` makes no difference is exactly what the correspondence runs exercise, restarts included). -/
namespace Oidc.Props.C04
open Oidc Oidc.Session Oidc.Handler Oidc.World Oidc.Strings

/-- one later request, any instance: forwarded with the session's identity, no provider call, jar unchanged -/
theorem session_continues (c : Cfg) (e0 e1 : Env) (r : Req) (v0 : View) (idRaw rt em : Str) (fuel : Nat)
    (hrt : ∀ t, e1.decompress (e1.compress t) = t) (hne : ∀ t, e1.compress t ≠ [])
    (hcodec : e0.compress = e1.compress ∧ e0.decompress = e1.decompress)
    (hm : 0 < c.maxSz)
    (hfuel : ∀ k, ((loggedInView c e0 v0 idRaw rt em).chunks k).length ≤ fuel)
    (hpath : excludedPath c r.path = false ∧ r.path ≠ c.logout ∧ r.path ≠ c.callback) (hpre : r.preflight = false)
    (hage : e1.now - e0.now ≤ c.maxAge)
    (hid : idRaw ≠ []) (hparse : (e1.tok idRaw).parses = true) (hacc : (e1.tok idRaw).verdict e1.now = .accept)
    (hgrace : ¬ (e1.tok idRaw).exp < e1.now + c.grace)
    (hem : em ≠ []) (hdom : isAllowedDomain c.allowDomains em = true) (hrole : roleGate c e1 idRaw = true) :
    let j := saveApply (loggedInView c e0 v0 idRaw rt em)
    (serveJar c e1 r j fuel).1.resp = .forward (downstreamHdrs c e1 r em idRaw) ∧
    (serveJar c e1 r j fuel).1.calls = [] ∧ (serveJar c e1 r j fuel).1.saved = [] :=
  Oidc.World.session_continues c e0 e1 r v0 idRaw rt em fuel hrt hne hcodec hm hfuel hpath hpre hage hid hparse hacc hgrace hem hdom hrole

/-- hence the jar is unchanged by such a request, so the statement applies again to the next request: any number of
    requests (induction over the history is immediate because the jar is a fixed point) -/
theorem jar_fixed (c : Cfg) (e0 e1 : Env) (r : Req) (v0 : View) (idRaw rt em : Str) (fuel : Nat)
    (hrt : ∀ t, e1.decompress (e1.compress t) = t) (hne : ∀ t, e1.compress t ≠ [])
    (hcodec : e0.compress = e1.compress ∧ e0.decompress = e1.decompress)
    (hm : 0 < c.maxSz)
    (hfuel : ∀ k, ((loggedInView c e0 v0 idRaw rt em).chunks k).length ≤ fuel)
    (hpath : excludedPath c r.path = false ∧ r.path ≠ c.logout ∧ r.path ≠ c.callback) (hpre : r.preflight = false)
    (hage : e1.now - e0.now ≤ c.maxAge)
    (hid : idRaw ≠ []) (hparse : (e1.tok idRaw).parses = true) (hacc : (e1.tok idRaw).verdict e1.now = .accept)
    (hgrace : ¬ (e1.tok idRaw).exp < e1.now + c.grace)
    (hem : em ≠ []) (hdom : isAllowedDomain c.allowDomains em = true) (hrole : roleGate c e1 idRaw = true) :
    (serveJar c e1 r (saveApply (loggedInView c e0 v0 idRaw rt em)) fuel).2 = saveApply (loggedInView c e0 v0 idRaw rt em) := by
  have h := (session_continues c e0 e1 r v0 idRaw rt em fuel hrt hne hcodec hm hfuel hpath hpre hage hid hparse hacc hgrace hem hdom hrole).2.2
  show applySaves _ (serveJar c e1 r _ fuel).1.saved = _
  rw [h]; rfl

/-- **history.** from the jar a successful login left in the browser, every request of any sequence of later requests — each
    served by its own environment: any instance, any cache or limiter state, any instant within the session lifetime at which
    the token is accepted and more than the grace period from expiry — is forwarded with the session's identity and without a
    provider call, and the jar at the end is still the jar of the login (`Later` collects the per-request assumptions of
    `session_continues`) -/
theorem session_continues_history (c : Cfg) (e0 : Env) (v0 : View) (idRaw rt em : Str) (fuel : Nat)
    (hm : 0 < c.maxSz) (hid : idRaw ≠ []) (hem : em ≠ [])
    (hfuel : ∀ k, ((loggedInView c e0 v0 idRaw rt em).chunks k).length ≤ fuel)
    (steps : List (Env × Req)) (hall : ∀ p ∈ steps, Later c e0 idRaw em p) :
    (runBrowser c fuel (saveApply (loggedInView c e0 v0 idRaw rt em)) steps).1 = saveApply (loggedInView c e0 v0 idRaw rt em) ∧
    ∀ p ∈ steps.zip (runBrowser c fuel (saveApply (loggedInView c e0 v0 idRaw rt em)) steps).2,
      p.2.resp = .forward (downstreamHdrs c p.1.1 p.1.2 em idRaw) ∧ p.2.calls = [] ∧ p.2.saved = [] :=
  Oidc.World.session_continues_history c e0 v0 idRaw rt em fuel hm hid hem hfuel steps hall

/-- the token stays accepted between two instants at which it is accepted (no re-login in between): C02's interval property -/
theorem accept_interval (f : Jwt.Facts) (issuer clientID : String) (keys : List Jwt.Key) (t1 t2 now : Int) (t : Jwt.Tok)
    (h1 : Jwt.accept f issuer clientID keys t1 t = true) (h2 : Jwt.accept f issuer clientID keys t2 t = true)
    (hle1 : t1 ≤ now) (hle2 : now ≤ t2) : Jwt.accept f issuer clientID keys now t = true :=
  Oidc.Jwt.accept_interval f issuer clientID keys t1 t2 now t h1 h2 hle1 hle2

/-- obligation against the regenerated facts (chunk size positive, 24 h lifetime) -/
theorem facts_ok : Oidc.Facts.GoodSession := by decide

/-! obligations against the regenerated program text of session.go: the functions these theorems rest on read, statement for
    statement, as they did when the session model was written after them (`Oidc/Shapes.lean`) -/
theorem text_SessionManager_GetSession_ok : Oidc.Shapes.Text_SessionManager_GetSession := by unfold Oidc.Shapes.Text_SessionManager_GetSession; rfl
theorem text_SessionManager_getTokenChunkSessions_ok : Oidc.Shapes.Text_SessionManager_getTokenChunkSessions := by unfold Oidc.Shapes.Text_SessionManager_getTokenChunkSessions; rfl
theorem text_SessionData_GetAccessToken_ok : Oidc.Shapes.Text_SessionData_GetAccessToken := by unfold Oidc.Shapes.Text_SessionData_GetAccessToken; rfl
theorem text_SessionData_GetAuthenticated_ok : Oidc.Shapes.Text_SessionData_GetAuthenticated := by unfold Oidc.Shapes.Text_SessionData_GetAuthenticated; rfl

theorem shape_ServeHTTP_ok : Oidc.Shapes.Shape_ServeHTTP := by unfold Oidc.Shapes.Shape_ServeHTTP; rfl

/-! ## Program text of the helpers these theorems also rest on (constructors, accessors, token endpoint, configuration) -/
theorem text_TraefikOidc_ExchangeCodeForToken_ok : Oidc.Shapes.Text_TraefikOidc_ExchangeCodeForToken := by unfold Oidc.Shapes.Text_TraefikOidc_ExchangeCodeForToken; rfl
theorem text_TraefikOidc_exchangeCodeForToken_ok : Oidc.Shapes.Text_TraefikOidc_exchangeCodeForToken := by unfold Oidc.Shapes.Text_TraefikOidc_exchangeCodeForToken; rfl
theorem text_TraefikOidc_exchangeTokens_ok : Oidc.Shapes.Text_TraefikOidc_exchangeTokens := by unfold Oidc.Shapes.Text_TraefikOidc_exchangeTokens; rfl
theorem text_SessionData_SetEmail_ok : Oidc.Shapes.Text_SessionData_SetEmail := by unfold Oidc.Shapes.Text_SessionData_SetEmail; rfl
theorem text_SessionData_GetIncomingPath_ok : Oidc.Shapes.Text_SessionData_GetIncomingPath := by unfold Oidc.Shapes.Text_SessionData_GetIncomingPath; rfl
theorem text_SessionData_SetIncomingPath_ok : Oidc.Shapes.Text_SessionData_SetIncomingPath := by unfold Oidc.Shapes.Text_SessionData_SetIncomingPath; rfl

/-- the constructor fixes the grace period, the caches and the session manager each instance runs with -/
theorem text_New_ok : Oidc.Shapes.Text_New := by unfold Oidc.Shapes.Text_New; rfl

/-! further functions these theorems rest on (every forwarded request passes through them) -/
theorem shape_isUserAuthenticated_ok : Oidc.Shapes.Shape_isUserAuthenticated := by unfold Oidc.Shapes.Shape_isUserAuthenticated; rfl

/-! ## The same statements about the code itself: the functions below are `Oidc.Generated.Code`, which `tools/go2lean` translates
    from /repo's source, statement by statement, on every run (meaning of the Go constructs: `Oidc/GoLib.lean`) -/
open Oidc.Generated Oidc.CodeRefine in
/-- main.go `isUserAuthenticated` as translated is the model's `classify`: which sessions count as established, which are due
    for a refresh, which are over -/
theorem code_isUserAuthenticated (c : Cfg) (e : Env) (v : View) (t : Go.Inst) (sess : Go.Sess)
    (hA : sess.GetAuthenticated = getAuth c.maxAge e.now v)
    (hR : sess.GetRefreshToken = getToken e.decompress v .refresh)
    (hT : sess.GetAccessToken = getToken e.decompress v .access)
    (hG : t.refreshGracePeriod = c.grace * 1000000000)
    (hP : (t.parseJWT sess.GetAccessToken).2.isNone = (e.tok sess.GetAccessToken).parses)
    (hV : (Code.TraefikOidc_VerifyJWTSignatureAndClaims (e.now * 1000000000) t (t.parseJWT sess.GetAccessToken).1 sess.GetAccessToken).isNone
            = decide ((e.tok sess.GetAccessToken).verdict e.now = .accept))
    (hE : (e.tok sess.GetAccessToken).verdict e.now = .accept →
            ∃ x, Go.asF64 (Go.mapGet (t.parseJWT sess.GetAccessToken).1.Claims "exp".toList) = (x, true) ∧
                 x.trunc = (e.tok sess.GetAccessToken).exp) :
    Code.TraefikOidc_isUserAuthenticated (e.now * 1000000000) t sess = classify c e v :=
  isUserAuthenticated_refines c e v t sess hA hR hT hG hP hV hE

open Oidc.Generated Oidc.CodeRefine in
/-- session.go `SetAuthenticated` / `GetAuthenticated` as translated: a session marked authenticated at instant `t0` (nanoseconds)
    answers "authenticated" at every instant up to 24 hours minus a second later and "not authenticated" from 24 hours and a second
    later on (the creation time is kept in whole seconds; the exact boundary is `GetAuthenticated_after_set_true`); marking it
    unauthenticated, or a session without creation time, answers "not authenticated" at any time.  The only other input is the
    random session id, which `SetAuthenticated(true)` must be able to draw. -/
theorem code_authenticated_window (sd : Go.SessData) (t0 t : Int) (h0 : 0 ≤ t0) (hrand : (sd.generateSecureRandomString 32).2 = none) :
    (t0 ≤ t → t - t0 ≤ 24 * Go.Hour - Go.Second → Code.SessionData_GetAuthenticated t (Code.SessionData_SetAuthenticated t0 sd true).2 = true) ∧
    (24 * Go.Hour + Go.Second ≤ t - t0 → Code.SessionData_GetAuthenticated t (Code.SessionData_SetAuthenticated t0 sd true).2 = false) ∧
    Code.SessionData_GetAuthenticated t (Code.SessionData_SetAuthenticated t0 sd false).2 = false :=
  ⟨(GetAuthenticated_window sd t0 t h0 hrand).1, (GetAuthenticated_window sd t0 t h0 hrand).2, (GetAuthenticated_after_set_false sd t0 t).2⟩

end Oidc.Props.C04
