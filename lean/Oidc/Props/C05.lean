import Oidc.Shapes
import Oidc.Proofs.CodeJwk
import Oidc.Proofs.Sched
import Oidc.Facts
/-! # C05 — concurrent requests are handled independently (property theorems only)

`Oidc.Sched`: a request is a list of actions on "its" session object; between two actions any other request may run (the
scheduling points of the harness: every ResponseWriter method, every provider call, the downstream handler); shared state =
the pool of session objects.  The caches and the limiter are linearisable because every operation holds one mutex throughout
(C13's regenerated lock-discipline fact), so they appear to each request as some sequential state.

**Partial**: Go-level data races, deadlocks and runtime aborts are outside any Lean model; the thorough tier runs the scheduler
scenarios and a multi-goroutine stress under `-race` with a deadlock time-out — supporting evidence, labelled as such.  The proof
covers interleavings at scheduling-point granularity under the regenerated fact that no session object is handed back to the
pool while its request may still use it. -/
namespace Oidc.Props.C05
open Oidc Oidc.Sched

/-- isolation: if no request ever hands its session object back to the pool while it may still use it, then under **every**
    schedule of **any** number of requests, whatever objects the pool held, each request that has run to completion emitted
    exactly what it emits when served alone -/
theorem isolation {D} (cleared : D) (h0 : Nat → D) (pool : List Nat) (fresh : Nat) (progs : Nat → List (Act D))
    (hpool : ∀ o ∈ pool, o < fresh) (hnd : pool.Nodup) (hno : ∀ i, usesPool (progs i) = false)
    (sched : List Nat) (i : Nat)
    (hdone : ((runSched cleared (start h0 pool fresh progs) sched).ths i).prog = []) :
    ((runSched cleared (start h0 pool fresh progs) sched).ths i).out = solo cleared (progs i) none :=
  Oidc.Sched.isolation cleared h0 pool fresh progs hpool hnd hno sched i hdone

/-- the invariant behind it is preserved by every step of every request: each object is referenced by at most one in-flight
    request or sits in the pool, never both -/
theorem ownership_step {D} (cleared : D) (s : St D) (orig : Nat → List (Act D)) (i : Nat) (g : Good cleared s orig) :
    Good cleared (stepTh cleared s i) orig :=
  Oidc.Sched.good_step cleared s orig i g

/-- obligation against the regenerated facts: `sessionPool.Put` occurs only in `GetSession` directly before `return nil, …`
    (the object is dropped by the caller), never in a function whose callers keep using the object -/
def GoodPool : Prop := Oidc.Generated.poolPutOnlyBeforeNilReturn = true ∧
  -- no method calls, while holding a lock of its receiver, a method of the same receiver that acquires one (sync.RWMutex is
  -- not reentrant: with a writer queued in between, the inner acquisition never returns and every later request hangs)
  Oidc.Generated.nestedLockCalls = [] ∧
  -- the periodic housekeeping the stress run executes next to live traffic is the ticker body of startTokenCleanup
  Oidc.Generated.housekeepingCalls = ["tokenCache", "jwkCache"]
instance : Decidable GoodPool := by unfold GoodPool; infer_instance
theorem facts_ok : GoodPool := by decide

/-- regression (the unrepaired shape): `Clear` hands the object back while the request goes on using it — request A
    (anonymous: load, clear-to-pool, set state, save) and request B (logged in: load, save) under the schedule A A B A A B both
    emit B's session with A's state -/
theorem unfixed_pool_counterexample :
    let A : List (Act Nat) := [.get 0, .clear true, .write (· + 7), .emit]
    let B : List (Act Nat) := [.get 100, .emit]
    let s0 : St Nat := { heap := fun _ => 0, pool := [], fresh := 0,
                         ths := fun i => if i = 0 then ⟨A, none, []⟩ else if i = 1 then ⟨B, none, []⟩ else idle }
    ((runSched 0 s0 [0, 0, 1, 0, 0, 1]).ths 0).out = [107] ∧ ((runSched 0 s0 [0, 0, 1, 0, 0, 1]).ths 1).out = [107] ∧
    solo 0 A none = [7] ∧ solo 0 B none = [100] :=
  Oidc.Sched.unfixed_pool_counterexample

/-- the same programs with the repaired `Clear` are isolated under that schedule (non-vacuity of `isolation`) -/
theorem fixed_pool_example :
    let A : List (Act Nat) := [.get 0, .clear false, .write (· + 7), .emit]
    let B : List (Act Nat) := [.get 100, .emit]
    let s0 : St Nat := { heap := fun _ => 0, pool := [], fresh := 0,
                         ths := fun i => if i = 0 then ⟨A, none, []⟩ else if i = 1 then ⟨B, none, []⟩ else idle }
    ((runSched 0 s0 [0, 0, 1, 0, 0, 1]).ths 0).out = [7] ∧ ((runSched 0 s0 [0, 0, 1, 0, 0, 1]).ths 1).out = [100] :=
  Oidc.Sched.fixed_pool_example

/-! ### the provider key-set cache, as translated from jwk.go on every run

`JWKCache.GetJWKS` and `JWKCache.Cleanup` are taken into Lean by `tools/go2lean` (struct-mutating, clocked: the clock and the HTTP
request at the key-set endpoint are operations of `Go.DOps`) and refine `Oidc.KeyCache`.  What requests that run at the same time
rely on: whichever of them finds the entry stale asks the provider; every other lookup while the entry is fresh gets the very same
key set and asks nobody; the clean-up ticker in between changes no answer. -/

open Oidc.Generated.Code in
/-- result, cache contents afterwards and whether the provider is asked: those of the model -/
theorem code_GetJWKS_is_KeyCache_get {σ : Type} (ops : Go.DOps σ) (c : Go.JwkCache) (ctx : Go.Ctx) (url : Go.Str) (hc : Go.HTTPClient)
    (w : σ) (hnil : ∀ w u, ((ops.fetchJWKS w u).1.2.isNone → (ops.fetchJWKS w u).1.1.isSome)) :
    (JWKCache_GetJWKS ops c ctx url hc w).1.1.1
        = (Oidc.KeyCache.get Go.Hour (Oidc.CodeJwk.abs c) (ops.clock w) (Oidc.CodeJwk.answerOf (ops.fetchJWKS w url).1) (ops.clock (ops.fetchJWKS w url).2)).1 ∧
    Oidc.CodeJwk.abs (JWKCache_GetJWKS ops c ctx url hc w).1.2
        = (Oidc.KeyCache.get Go.Hour (Oidc.CodeJwk.abs c) (ops.clock w) (Oidc.CodeJwk.answerOf (ops.fetchJWKS w url).1) (ops.clock (ops.fetchJWKS w url).2)).2 ∧
    (JWKCache_GetJWKS ops c ctx url hc w).2 = (if Oidc.KeyCache.asks (Oidc.CodeJwk.abs c) (ops.clock w) then (ops.fetchJWKS w url).2 else w) ∧
    ((JWKCache_GetJWKS ops c ctx url hc w).1.1.2.isSome ↔
      (Oidc.KeyCache.asks (Oidc.CodeJwk.abs c) (ops.clock w) = true ∧ (ops.fetchJWKS w url).1.2.isSome)) :=
  Oidc.CodeJwk.GetJWKS_refines ops c ctx url hc w hnil

open Oidc.Generated.Code in
/-- a lookup while the entry is fresh: the cached key set, no error, cache and world untouched (nobody is asked) -/
theorem code_GetJWKS_fresh {σ : Type} (ops : Go.DOps σ) (c : Go.JwkCache) (ctx : Go.Ctx) (url : Go.Str) (hc : Go.HTTPClient) (w : σ)
    (k : Go.JWKSet) (hk : c.jwks = some k) (hf : ops.clock w < c.expiresAt) :
    JWKCache_GetJWKS ops c ctx url hc w = (((some k, none), c), w) := by
  have h1 : (c.jwks.isSome && Go.timeBefore (ops.clock w) c.expiresAt) = true := by
    simp [hk, Go.timeBefore]; exact hf
  unfold JWKCache_GetJWKS
  rw [if_pos h1, hk]

open Oidc.Generated.Code in
/-- no fresh entry and the key endpoint fails: an error and no keys — the expired key set is not served — and the cache is as before -/
theorem code_GetJWKS_stale_and_failing {σ : Type} (ops : Go.DOps σ) (c : Go.JwkCache) (ctx : Go.Ctx) (url : Go.Str) (hc : Go.HTTPClient)
    (w : σ) (hs : c.jwks = none ∨ c.expiresAt ≤ ops.clock w) (e : Go.Str) (he : (ops.fetchJWKS w url).1.2 = some e) :
    (JWKCache_GetJWKS ops c ctx url hc w).1 = ((none, some e), c) := by
  have h1 : (c.jwks.isSome && Go.timeBefore (ops.clock w) c.expiresAt) = false := by
    rcases hs with hs | hs
    · simp [hs]
    · have : ¬ ops.clock w < c.expiresAt := Int.not_lt.mpr hs
      simp [Go.timeBefore, this]
  simp only [JWKCache_GetJWKS, h1, he]
  simp

/-- the clean-up ticker of the key cache is the model's `cleanup`, and lookups at or after it answer as if it had not run -/
theorem code_JWKCache_Cleanup_transparent (c : Go.JwkCache) (t now : Int) (answer : Option Go.JWKSet) (after : Int) (h : t ≤ now) :
    (Oidc.KeyCache.get Go.Hour (Oidc.CodeJwk.abs (Oidc.Generated.Code.JWKCache_Cleanup t c)) now answer after).1
      = (Oidc.KeyCache.get Go.Hour (Oidc.CodeJwk.abs c) now answer after).1 ∧
    Oidc.KeyCache.asks (Oidc.CodeJwk.abs (Oidc.Generated.Code.JWKCache_Cleanup t c)) now = Oidc.KeyCache.asks (Oidc.CodeJwk.abs c) now := by
  rw [Oidc.CodeJwk.Cleanup_refines]
  exact Oidc.CodeJwk.get_after_cleanup Go.Hour (Oidc.CodeJwk.abs c) t now answer after h

/-- keys come from a fresh entry or from the provider's answer to this very lookup, never from an expired entry -/
theorem keys_served_are_fresh_or_just_fetched {K : Type} (hour : Int) (s : Oidc.KeyCache.St K) (now : Int) (answer : Option K)
    (after : Int) (k : K) (h : (Oidc.KeyCache.get hour s now answer after).1 = some k) :
    (s.keys = some k ∧ now < s.expires) ∨ (Oidc.KeyCache.fresh s now = false ∧ answer = some k) :=
  Oidc.CodeJwk.get_some hour s now answer after k h

-- (premises satisfiable: an entry that expired at 10, looked up at 20 with a failing provider: nothing served, nothing changed)
example : Oidc.KeyCache.get 3600 ({ keys := some 7, expires := 10, lifetime := 0 } : Oidc.KeyCache.St Nat) 20 none 21 =
    (none, { keys := some 7, expires := 10, lifetime := 0 }) := by decide
example : (Oidc.KeyCache.get 3600 ({ keys := some 7, expires := 10, lifetime := 0 } : Oidc.KeyCache.St Nat) 20 (some 8) 21).2.expires = 3621 := by decide


/-! obligations against the regenerated program text: the functions these theorems rest on read, statement for statement, as
    they did when the model was written after them (`Oidc/Shapes.lean`) -/
theorem text_JWKCache_GetJWKS_ok : Oidc.Shapes.Text_JWKCache_GetJWKS := by unfold Oidc.Shapes.Text_JWKCache_GetJWKS; rfl
theorem text_JWKCache_Cleanup_ok : Oidc.Shapes.Text_JWKCache_Cleanup := by unfold Oidc.Shapes.Text_JWKCache_Cleanup; rfl

/-! further obligations against the regenerated program text (`Oidc/Shapes.lean`): constructor wiring and URL builders -/
theorem text_TraefikOidc_buildURLWithParams_ok : Oidc.Shapes.Text_TraefikOidc_buildURLWithParams := by unfold Oidc.Shapes.Text_TraefikOidc_buildURLWithParams; rfl
theorem text_New_ok : Oidc.Shapes.Text_New := by unfold Oidc.Shapes.Text_New; rfl


/-! ## Program text of the helpers these theorems also rest on (constructors, accessors, token endpoint, configuration) -/
theorem text_fetchJWKS_ok : Oidc.Shapes.Text_fetchJWKS := by unfold Oidc.Shapes.Text_fetchJWKS; rfl
theorem text_TraefikOidc_startTokenCleanup_ok : Oidc.Shapes.Text_TraefikOidc_startTokenCleanup := by unfold Oidc.Shapes.Text_TraefikOidc_startTokenCleanup; rfl
theorem text_createStringMap_ok : Oidc.Shapes.Text_createStringMap := by unfold Oidc.Shapes.Text_createStringMap; rfl

/-! the verification path every request's isolation rests on: a verdict is a function of the token, the key set fetched for it and
    the two caches behind their locks — no other state is shared between requests (a memo next to it would be) -/
theorem text_TraefikOidc_VerifyJWTSignatureAndClaims_ok : Oidc.Shapes.Text_TraefikOidc_VerifyJWTSignatureAndClaims := by unfold Oidc.Shapes.Text_TraefikOidc_VerifyJWTSignatureAndClaims; rfl
theorem text_TraefikOidc_VerifyToken_ok : Oidc.Shapes.Text_TraefikOidc_VerifyToken := by unfold Oidc.Shapes.Text_TraefikOidc_VerifyToken; rfl

end Oidc.Props.C05
