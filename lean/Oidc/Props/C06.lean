import Oidc.Proofs.CodeHandler
import Oidc.Proofs.CodeSession
import Oidc.Proofs.CodeStrings
import Oidc.Shapes
import Oidc.Proofs.Strings
import Oidc.Proofs.Handler2
import Oidc.Proofs.Handler
/-! # C06 — domain and role/group restrictions (property theorems only) -/
namespace Oidc.Props.C06
open Oidc Oidc.Session Oidc.Handler Oidc.Strings

/-- with domains configured: allowed iff the e-mail is `local@domain` with exactly one `@` and the domain is listed exactly
    (no case folding, trimming, suffix or sub-domain matching) -/
theorem isAllowedDomain_iff (doms : List Str) (email : Str) (hd : doms ≠ []) :
    isAllowedDomain doms email = true ↔
      ∃ l d, email = l ++ '@' :: d ∧ '@' ∉ l ∧ '@' ∉ d ∧ d ∈ doms :=
  Oidc.Strings.isAllowedDomain_iff doms email hd

/-- with no domain list no restriction applies -/
theorem isAllowedDomain_empty (email : Str) : isAllowedDomain [] email = true :=
  Oidc.Strings.isAllowedDomain_empty email

/-- with roles/groups configured: allowed iff both claims are absent or arrays and some *string* element of one of the
    arrays is listed -/
theorem rolesGate_iff (allow : List Str) (groups roles : Claim) (ha : allow ≠ []) :
    rolesGate allow groups roles = true ↔
      ∃ g r, extract groups roles = some (g, r) ∧ ∃ v, (v ∈ g ∨ v ∈ r) ∧ v ∈ allow :=
  Oidc.Strings.rolesGate_iff allow groups roles ha

/-- a present claim that is not an array fails closed -/
theorem wrongly_typed_fails_closed (allow : List Str) (groups roles : Claim) (ha : allow ≠ [])
    (h : (groups matches .other) ∨ (roles matches .other)) : rolesGate allow groups roles = false :=
  Oidc.Strings.extract_fail_closed allow groups roles ha ((Oidc.Strings.extract_none_iff groups roles).mpr h)

/-- with no allow-list no restriction applies -/
theorem rolesGate_empty (groups roles : Claim) : rolesGate [] groups roles = true :=
  Oidc.Strings.rolesGate_empty groups roles

/-- every forward satisfies both gates, evaluated on the e-mail of the session and the token of *this* step — after a
    refresh that is the refreshed view (new token, its e-mail) -/
theorem gate_every_forward (c : Cfg) (e : Env) (r : Req) (v : View) (h : List (Str × Str))
    (hf : (serveV c e r v).resp = .forward h) :
    (isAllowedDomain c.allowDomains (getEmail v) = true ∧ roleGate c e (getToken e.decompress v .access) = true ∧
      (serveV c e r v).calls = []) ∨
    (∃ idRaw rt' em, e.refresh (getToken e.decompress v .refresh) = .ok idRaw rt' ∧ (e.tok idRaw).email = some em ∧
      isAllowedDomain c.allowDomains (getEmail (refreshedView c e v idRaw rt' em)) = true ∧
      roleGate c e (getToken e.decompress (refreshedView c e v idRaw rt' em) .access) = true) := by
  obtain ⟨_, _, _, h4⟩ := Oidc.Handler.gate c e r v h hf
  rcases h4 with ⟨_, _, _, _, hd, hr, _, hc⟩ | ⟨idRaw, rt', em, hx, _, _, hem, _, hd, hr, _⟩
  · exact Or.inl ⟨hd, hr, hc⟩
  · exact Or.inr ⟨idRaw, rt', em, hx, hem, hd, hr⟩

/-- a login whose token's e-mail is missing, empty or fails the domain gate stores no session -/
theorem login_rejected (c : Cfg) (e : Env) (r : Req) (v : View) (idRaw rt : Str) (calls : List Call)
    (h : ((e.tok idRaw).email).getD [] = [] ∨ isAllowedDomain c.allowDomains (((e.tok idRaw).email).getD []) = false) :
    (cbToken c e r v idRaw rt calls).saved = [] := by
  cases hs : (cbToken c e r v idRaw rt calls).saved with
  | nil => rfl
  | cons a l =>
    have hne : (cbToken c e r v idRaw rt calls).saved ≠ [] := by rw [hs]; simp
    obtain ⟨_, _, _, h4, h5, _⟩ := Oidc.Handler.cbToken_saved c e r v idRaw rt calls hne
    rcases h with h | h
    · exact absurd h h4
    · rw [h] at h5; cases h5

/-! non-vacuity -/
example : isAllowedDomain ["example.com".toList] "a@example.com".toList = true := by decide
example : isAllowedDomain ["example.com".toList] "a@Example.com".toList = false := by decide
example : isAllowedDomain ["example.com".toList] "a@b@example.com".toList = false := by decide
example : isAllowedDomain ["example.com".toList] "a@example.com.evil.test".toList = false := by decide
example : rolesGate ["admin".toList] (.array [.nonStr, .str "admin".toList]) .absent = true := by decide
example : rolesGate ["admin".toList] .other (.array [.str "admin".toList]) = false := by decide

/-! obligations against the regenerated shapes: the functions these theorems rest on still have the steps, guards, status
    codes and literals the model was written against (`Oidc/Shapes.lean`) -/
theorem shape_processAuthorizedRequest_ok : Oidc.Shapes.Shape_processAuthorizedRequest := by unfold Oidc.Shapes.Shape_processAuthorizedRequest; rfl
theorem shape_handleCallback_ok : Oidc.Shapes.Shape_handleCallback := by unfold Oidc.Shapes.Shape_handleCallback; rfl
theorem shape_refreshToken_ok : Oidc.Shapes.Shape_refreshToken := by unfold Oidc.Shapes.Shape_refreshToken; rfl

/-! obligations against the regenerated program text: the functions these theorems rest on read, statement for statement, as
    they did when the model was written after them (`Oidc/Shapes.lean`) -/
theorem text_TraefikOidc_isAllowedDomain_ok : Oidc.Shapes.Text_TraefikOidc_isAllowedDomain := by unfold Oidc.Shapes.Text_TraefikOidc_isAllowedDomain; rfl
theorem text_TraefikOidc_extractGroupsAndRoles_ok : Oidc.Shapes.Text_TraefikOidc_extractGroupsAndRoles := by unfold Oidc.Shapes.Text_TraefikOidc_extractGroupsAndRoles; rfl


/-! ## Program text of the helpers these theorems also rest on (constructors, accessors, token endpoint, configuration) -/
theorem text_createStringMap_ok : Oidc.Shapes.Text_createStringMap := by unfold Oidc.Shapes.Text_createStringMap; rfl
theorem text_New_ok : Oidc.Shapes.Text_New := by unfold Oidc.Shapes.Text_New; rfl
theorem text_SessionData_GetEmail_ok : Oidc.Shapes.Text_SessionData_GetEmail := by unfold Oidc.Shapes.Text_SessionData_GetEmail; rfl
theorem text_SessionData_SetEmail_ok : Oidc.Shapes.Text_SessionData_SetEmail := by unfold Oidc.Shapes.Text_SessionData_SetEmail; rfl

/-! further functions these theorems rest on (every forwarded request passes through them) -/
theorem shape_ServeHTTP_ok : Oidc.Shapes.Shape_ServeHTTP := by unfold Oidc.Shapes.Shape_ServeHTTP; rfl
theorem shape_isUserAuthenticated_ok : Oidc.Shapes.Shape_isUserAuthenticated := by unfold Oidc.Shapes.Shape_isUserAuthenticated; rfl
theorem text_SessionData_GetAccessToken_ok : Oidc.Shapes.Text_SessionData_GetAccessToken := by unfold Oidc.Shapes.Text_SessionData_GetAccessToken; rfl
theorem text_SessionData_GetRefreshToken_ok : Oidc.Shapes.Text_SessionData_GetRefreshToken := by unfold Oidc.Shapes.Text_SessionData_GetRefreshToken; rfl
theorem text_SessionData_GetAuthenticated_ok : Oidc.Shapes.Text_SessionData_GetAuthenticated := by unfold Oidc.Shapes.Text_SessionData_GetAuthenticated; rfl

/-! ## The same statements about the code itself: the functions below are `Oidc.Generated.Code`, which `tools/go2lean` translates
    from /repo's source, statement by statement, on every run (meaning of the Go constructs: `Oidc/GoLib.lean`) -/
open Oidc.Generated Oidc.CodeRefine in
/-- main.go `isAllowedDomain` as translated: with domains configured, true iff `local@domain`, exactly one `@`, domain listed -/
theorem code_isAllowedDomain_iff (t : Go.Inst) (email : Str) (hd : t.allowedUserDomains ≠ []) :
    Code.TraefikOidc_isAllowedDomain t email = true ↔
      ∃ l d, email = l ++ '@' :: d ∧ '@' ∉ l ∧ '@' ∉ d ∧ d ∈ t.allowedUserDomains := by
  rw [isAllowedDomain_refines]; exact isAllowedDomain_iff _ _ hd

open Oidc.Generated Oidc.CodeRefine in
theorem code_isAllowedDomain_empty (t : Go.Inst) (email : Str) (hd : t.allowedUserDomains = []) :
    Code.TraefikOidc_isAllowedDomain t email = true := by
  rw [isAllowedDomain_refines, hd]; exact isAllowedDomain_empty email

open Oidc.Generated Oidc.CodeRefine in
/-- main.go `extractGroupsAndRoles` as translated: an error iff a present claim is not an array, otherwise the string elements
    of the two arrays in order -/
theorem code_extractGroupsAndRoles (t : Go.Inst) (tok : Str) (claims : Go.Obj) (hc : t.extractClaimsFunc tok = (claims, none)) :
    (match extract (absClaim claims "groups".toList) (absClaim claims "roles".toList) with
      | none => (Code.TraefikOidc_extractGroupsAndRoles t tok).2.2.isSome = true
      | some (g, r) => Code.TraefikOidc_extractGroupsAndRoles t tok = (g, r, none)) :=
  extractGroupsAndRoles_refines t tok claims hc

open Oidc.Generated Oidc.CodeRefine in
/-- session.go `SetEmail` / `GetEmail` as translated: the address the allow-list is asked about on every request
    (`processAuthorizedRequest` reads `GetEmail`) is the very string the callback or the refresh stored — not a trimmed, case-folded
    or otherwise normalised form of it, so the gate at login and the gate on each request judge the same spelling -/
theorem code_email_stored_as_is (sd : Go.SessData) (email : Go.Str) :
    Code.SessionData_GetEmail (Code.SessionData_SetEmail sd email) = email :=
  mainGet_mainSet _ sd email

end Oidc.Props.C06
