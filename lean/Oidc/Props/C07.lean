import Oidc.Proofs.CodeHandler
import Oidc.Proofs.CodeSession
import Oidc.Shapes
import Oidc.Proofs.SessionHist
import Oidc.Facts
/-! # C07 — session cookies read back exactly what was last written, across any history (property theorems only)

`compress`/`decompress` abstract gzip+base64 (`decompress (compress t) = t`, `compress t ≠ ""`; the real round trip is
exercised by every run).  A jar maps cookie names to authentic payloads or `bad`; `saveApply v` is the browser's jar after
it applied the Set-Cookie lines of one `Save` of view `v` (every cookie of the view rewritten, surplus chunk cookies deleted). -/
namespace Oidc.Props.C07
open Oidc Oidc.Session

/-- history: the store refines a plain record of fields — for every history of requests (any writes, clears, saves; tokens of
    any length and content), from any starting jar whose reading is known, the next request reads exactly what the same
    history leaves in the record, subject only to the 24-hour rule -/
theorem read_back (compress decompress : Str → Str)
    (hrt : ∀ t, decompress (compress t) = t) (hne : ∀ t, compress t ≠ []) (maxAge : Int) (maxSz : Nat)
    (hm : 0 < maxSz) (fuel : Nat) (hist : List (Int × List W)) (j : Jar) (now : Int)
    (hfit : Fits compress maxAge maxSz fuel j hist)
    (f0 : Fields) (h0 : ∀ t, fieldsOf decompress (getSession maxAge j t fuel) = ageF maxAge t f0) :
    fieldsOf decompress (getSession maxAge (runHist compress maxAge maxSz fuel j hist) now fuel)
      = ageF maxAge now (specHist maxAge f0 hist) :=
  Oidc.Session.read_back compress decompress hrt hne maxAge maxSz hm fuel hist j now hfit f0 h0

/-- in particular from the empty jar -/
theorem read_back_from_empty (compress decompress : Str → Str)
    (hrt : ∀ t, decompress (compress t) = t) (hne : ∀ t, compress t ≠ []) (maxAge : Int) (maxSz : Nat)
    (hm : 0 < maxSz) (fuel : Nat) (hist : List (Int × List W)) (now : Int)
    (hfit : Fits compress maxAge maxSz fuel (fun _ => none) hist) :
    fieldsOf decompress (getSession maxAge (runHist compress maxAge maxSz fuel (fun _ => none) hist) now fuel)
      = ageF maxAge now (specHist maxAge clearedFields hist) :=
  read_back compress decompress hrt hne maxAge maxSz hm fuel hist _ now hfit clearedFields
    (fun t => fieldsOf_empty decompress maxAge t fuel)

/-- one `Save` then `GetSession`, whatever the jar held before (no remnants of earlier, longer values) -/
theorem getSession_saved (maxAge : Int) (v : View) (now : Int) (fuel : Nat) (h : ∀ k, (v.chunks k).length ≤ fuel) :
    getSession maxAge (saveApply v) now fuel = ageCheck maxAge now v :=
  Oidc.Session.getSession_saved maxAge v now fuel h

/-- a token of any length and content reads back exactly: empty, whole, or any number of chunks -/
theorem getToken_setToken (compress decompress : Str → Str)
    (hrt : ∀ t, decompress (compress t) = t) (hne : ∀ t, compress t ≠ [])
    (maxSz : Nat) (hm : 0 < maxSz) (v : View) (k : TokKind) (t : Str) :
    getToken decompress (setToken compress maxSz v k t) k = t :=
  Oidc.Session.getToken_setToken compress decompress hrt hne maxSz hm v k t

/-- no mixing: every write touches only its own field -/
theorem fieldsOf_applyW (compress decompress : Str → Str)
    (hrt : ∀ t, decompress (compress t) = t) (hne : ∀ t, compress t ≠ []) (maxSz : Nat) (hm : 0 < maxSz)
    (now : Int) (v : View) (w : W) :
    fieldsOf decompress (applyW compress maxSz now v w) = stepF now (fieldsOf decompress v) w :=
  Oidc.Session.fieldsOf_applyW compress decompress hrt hne maxSz hm now v w

/-- chunking: the pieces concatenate to the text, each is non-empty and at most `n` long -/
theorem split_join (n : Nat) (s : Str) (hn : 0 < n) :
    (splitN n s).flatten = s ∧ ∀ c ∈ splitN n s, c.length ≤ n ∧ c ≠ [] :=
  ⟨splitN_flatten n s hn, splitN_piece_le n s⟩

/-- obligation against the regenerated facts: chunk size positive -/
theorem facts_ok : Oidc.Facts.GoodSession := by decide

/-! non-vacuity: a 3-chunk token replaced by a 1-chunk token, read back exactly; identity codec with marker so that `compress t ≠ []` -/
def exC (t : Str) : Str := 'z' :: t
def exD (z : Str) : Str := z.tail
example : ∀ t, exD (exC t) = t := fun _ => rfl
example : ∀ t, exC t ≠ [] := fun _ => by simp [exC]
def exHist : List (Int × List W) := [(0, [.tok .access "abcdefgh".toList, .email "e".toList]), (5, [.tok .access "ab".toList])]
example : (fieldsOf exD (getSession 100 (runHist exC 100 3 8 (fun _ => none) exHist) 6 8)).tok .access = "ab".toList := by decide
example : ((getSession 100 (runHist exC 100 3 8 (fun _ => none) [(0, [.tok .access "abcdefgh".toList, .email "e".toList])]) 1 8).chunks .access).length = 3 := by decide +kernel
example : (fieldsOf exD (getSession 100 (runHist exC 100 3 8 (fun _ => none) exHist) 6 8)).email = "e".toList := by decide

/-! obligations against the regenerated program text of session.go: the functions these theorems rest on read, statement for
    statement, as they did when the session model was written after them (`Oidc/Shapes.lean`) -/
theorem text_compressToken_ok : Oidc.Shapes.Text_compressToken := by unfold Oidc.Shapes.Text_compressToken; rfl
theorem text_decompressToken_ok : Oidc.Shapes.Text_decompressToken := by unfold Oidc.Shapes.Text_decompressToken; rfl
theorem text_SessionManager_GetSession_ok : Oidc.Shapes.Text_SessionManager_GetSession := by unfold Oidc.Shapes.Text_SessionManager_GetSession; rfl
theorem text_SessionManager_getTokenChunkSessions_ok : Oidc.Shapes.Text_SessionManager_getTokenChunkSessions := by unfold Oidc.Shapes.Text_SessionManager_getTokenChunkSessions; rfl
theorem text_SessionData_Save_ok : Oidc.Shapes.Text_SessionData_Save := by unfold Oidc.Shapes.Text_SessionData_Save; rfl
theorem text_SessionData_deleteStaleChunkCookies_ok : Oidc.Shapes.Text_SessionData_deleteStaleChunkCookies := by unfold Oidc.Shapes.Text_SessionData_deleteStaleChunkCookies; rfl
theorem text_SessionData_Clear_ok : Oidc.Shapes.Text_SessionData_Clear := by unfold Oidc.Shapes.Text_SessionData_Clear; rfl
theorem text_SessionData_clearTokenChunks_ok : Oidc.Shapes.Text_SessionData_clearTokenChunks := by unfold Oidc.Shapes.Text_SessionData_clearTokenChunks; rfl
theorem text_SessionData_GetAccessToken_ok : Oidc.Shapes.Text_SessionData_GetAccessToken := by unfold Oidc.Shapes.Text_SessionData_GetAccessToken; rfl
theorem text_SessionData_SetAccessToken_ok : Oidc.Shapes.Text_SessionData_SetAccessToken := by unfold Oidc.Shapes.Text_SessionData_SetAccessToken; rfl
theorem text_SessionData_GetRefreshToken_ok : Oidc.Shapes.Text_SessionData_GetRefreshToken := by unfold Oidc.Shapes.Text_SessionData_GetRefreshToken; rfl
theorem text_SessionData_SetRefreshToken_ok : Oidc.Shapes.Text_SessionData_SetRefreshToken := by unfold Oidc.Shapes.Text_SessionData_SetRefreshToken; rfl
theorem text_SessionData_expireAccessTokenChunks_ok : Oidc.Shapes.Text_SessionData_expireAccessTokenChunks := by unfold Oidc.Shapes.Text_SessionData_expireAccessTokenChunks; rfl
theorem text_SessionData_expireRefreshTokenChunks_ok : Oidc.Shapes.Text_SessionData_expireRefreshTokenChunks := by unfold Oidc.Shapes.Text_SessionData_expireRefreshTokenChunks; rfl
theorem text_splitIntoChunks_ok : Oidc.Shapes.Text_splitIntoChunks := by unfold Oidc.Shapes.Text_splitIntoChunks; rfl
theorem text_SessionData_GetAuthenticated_ok : Oidc.Shapes.Text_SessionData_GetAuthenticated := by unfold Oidc.Shapes.Text_SessionData_GetAuthenticated; rfl
theorem text_SessionData_SetAuthenticated_ok : Oidc.Shapes.Text_SessionData_SetAuthenticated := by unfold Oidc.Shapes.Text_SessionData_SetAuthenticated; rfl


/-! ## Program text of the helpers these theorems also rest on (constructors, accessors, token endpoint, configuration) -/
theorem text_SessionData_GetCSRF_ok : Oidc.Shapes.Text_SessionData_GetCSRF := by unfold Oidc.Shapes.Text_SessionData_GetCSRF; rfl
theorem text_SessionData_SetCSRF_ok : Oidc.Shapes.Text_SessionData_SetCSRF := by unfold Oidc.Shapes.Text_SessionData_SetCSRF; rfl
theorem text_SessionData_GetNonce_ok : Oidc.Shapes.Text_SessionData_GetNonce := by unfold Oidc.Shapes.Text_SessionData_GetNonce; rfl
theorem text_SessionData_SetNonce_ok : Oidc.Shapes.Text_SessionData_SetNonce := by unfold Oidc.Shapes.Text_SessionData_SetNonce; rfl
theorem text_SessionData_GetCodeVerifier_ok : Oidc.Shapes.Text_SessionData_GetCodeVerifier := by unfold Oidc.Shapes.Text_SessionData_GetCodeVerifier; rfl
theorem text_SessionData_SetCodeVerifier_ok : Oidc.Shapes.Text_SessionData_SetCodeVerifier := by unfold Oidc.Shapes.Text_SessionData_SetCodeVerifier; rfl
theorem text_SessionData_GetEmail_ok : Oidc.Shapes.Text_SessionData_GetEmail := by unfold Oidc.Shapes.Text_SessionData_GetEmail; rfl
theorem text_SessionData_SetEmail_ok : Oidc.Shapes.Text_SessionData_SetEmail := by unfold Oidc.Shapes.Text_SessionData_SetEmail; rfl
theorem text_SessionData_GetIncomingPath_ok : Oidc.Shapes.Text_SessionData_GetIncomingPath := by unfold Oidc.Shapes.Text_SessionData_GetIncomingPath; rfl
theorem text_SessionData_SetIncomingPath_ok : Oidc.Shapes.Text_SessionData_SetIncomingPath := by unfold Oidc.Shapes.Text_SessionData_SetIncomingPath; rfl

/-! ## The same statements about the code itself: the functions below are `Oidc.Generated.Code`, which `tools/go2lean` translates
    from /repo's source, statement by statement, on every run (meaning of the Go constructs: `Oidc/GoLib.lean`) -/
open Oidc.Generated Oidc.CodeRefine in
/-- session.go `splitIntoChunks` as translated: for a positive chunk size the loop ends within `len(s)+1` rounds and yields
    the model's `splitN` — pieces that concatenate to the text, none empty, none longer than the chunk size -/
theorem code_splitIntoChunks (s : Str) (n : Int) (hn : 0 < n) (fuel : Nat) (hf : s.length < fuel) :
    Code.splitIntoChunks fuel s n = some (splitN n.toNat s) :=
  splitIntoChunks_refines s n hn fuel hf

open Oidc.Generated Oidc.CodeRefine in
theorem code_splitIntoChunks_joins (s : Str) (n : Int) (hn : 0 < n) :
    ∃ cs, Code.splitIntoChunks (s.length + 1) s n = some cs ∧ cs.flatten = s ∧ ∀ c ∈ cs, c.length ≤ n.toNat ∧ c ≠ [] :=
  ⟨splitN n.toNat s, splitIntoChunks_refines s n hn _ (Nat.lt_succ_self _), splitN_flatten n.toNat s (by omega),
    splitN_piece_le n.toNat s⟩

open Oidc.Generated Oidc.CodeRefine in
/-- session.go `SetAccessToken` / `GetAccessToken` (with `expireAccessTokenChunks` and `splitIntoChunks` inside) as translated,
    over the heap of gorilla sessions (`Go.SessData`: the per-request registry by cookie name, the request's decoded cookies, the
    chunk map): **what the setter leaves in memory is what the getter reads** — for a token of any length, stored whole or cut into
    any number of chunk sessions, whether or not a request is attached (then the chunk cookies the request carries are expired
    first, and the loop ends at the first index the request has no cookie for).  Assumed of gzip+base64 only that decompression
    undoes compression on this token and that compressed text is never empty.  Nothing outside the access token's own sessions
    changes: the refresh token's and the main session are as they were. -/
theorem code_SetAccessToken_GetAccessToken (sd : Go.SessData) (tok : Go.Str) (fuel : Nat)
    (hwf : sd.accessSession = Code.accessTokenCookie)
    (hdec : sd.decompress (sd.compress tok) = tok) (hne : sd.compress tok ≠ [])
    (hf : (sd.compress tok).length < fuel)
    (hterm : sd.hasRequest = true → ∃ N : Nat, N < fuel ∧ (∀ j : Nat, j < N → chunkIsNew Code.accessTokenCookie sd j = false) ∧
        chunkIsNew Code.accessTokenCookie sd N = true) :
    ∃ sd', Code.SessionData_SetAccessToken fuel sd tok = some sd' ∧ Code.SessionData_GetAccessToken fuel sd' = some tok ∧
      (∀ q, q ≠ Code.accessTokenCookie → (∀ i, q ≠ Go.chunkName Code.accessTokenCookie i) → Go.regGet sd'.reg q = Go.regGet sd.reg q) ∧
      sd'.refreshSession = sd.refreshSession ∧ sd'.refreshTokenChunks = sd.refreshTokenChunks ∧ sd'.mainSession = sd.mainSession :=
  SetAccessToken_GetAccessToken sd tok fuel hwf hdec hne hf hterm

open Oidc.Generated Oidc.CodeRefine in
/-- the same for `SetRefreshToken` / `GetRefreshToken` -/
theorem code_SetRefreshToken_GetRefreshToken (sd : Go.SessData) (tok : Go.Str) (fuel : Nat)
    (hwf : sd.refreshSession = Code.refreshTokenCookie)
    (hdec : sd.decompress (sd.compress tok) = tok) (hne : sd.compress tok ≠ [])
    (hf : (sd.compress tok).length < fuel)
    (hterm : sd.hasRequest = true → ∃ N : Nat, N < fuel ∧ (∀ j : Nat, j < N → chunkIsNew Code.refreshTokenCookie sd j = false) ∧
        chunkIsNew Code.refreshTokenCookie sd N = true) :
    ∃ sd', Code.SessionData_SetRefreshToken fuel sd tok = some sd' ∧ Code.SessionData_GetRefreshToken fuel sd' = some tok ∧
      (∀ q, q ≠ Code.refreshTokenCookie → (∀ i, q ≠ Go.chunkName Code.refreshTokenCookie i) → Go.regGet sd'.reg q = Go.regGet sd.reg q) ∧
      sd'.accessSession = sd.accessSession ∧ sd'.accessTokenChunks = sd.accessTokenChunks ∧ sd'.mainSession = sd.mainSession :=
  SetRefreshToken_GetRefreshToken sd tok fuel hwf hdec hne hf hterm

open Oidc.Generated Oidc.CodeRefine in
/-- the chunk names the two tokens use never coincide with each other or with the three fixed cookie names, and differ from
    index to index (what keeps the sessions apart in the registry, and the cookies apart in the browser) -/
theorem code_chunk_names_distinct (i j : Int) :
    (Go.chunkName Code.accessTokenCookie i = Go.chunkName Code.accessTokenCookie j → i = j) ∧
    Go.chunkName Code.accessTokenCookie i ≠ Go.chunkName Code.refreshTokenCookie j ∧
    Go.chunkName Code.accessTokenCookie i ≠ Code.accessTokenCookie ∧ Go.chunkName Code.accessTokenCookie i ≠ Code.refreshTokenCookie ∧
    Go.chunkName Code.refreshTokenCookie i ≠ Code.accessTokenCookie ∧ Go.chunkName Code.refreshTokenCookie i ≠ Code.refreshTokenCookie :=
  ⟨chunkName_inj _ i j, chunkName_bases _ _ i j (by decide) (by decide), chunkName_ne_base _ i,
   chunkName_ne_other _ _ i (by decide), chunkName_ne_other _ _ i (by decide), chunkName_ne_base _ i⟩

open Oidc.Generated Oidc.CodeRefine in
/-- writing the ID token does not change what is read of the refresh token (the sessions being named as `GetSession` names them:
    the two fixed cookies, refresh chunks under `_oidc_raczylo_r_<i>`): `GetRefreshToken` returns the same before and after
    `SetAccessToken`, whatever the two tokens' sizes -/
theorem code_SetAccessToken_keeps_refresh (sd : Go.SessData) (tok : Go.Str) (fuel : Nat)
    (hwf : sd.accessSession = Code.accessTokenCookie) (hwr : sd.refreshSession = Code.refreshTokenCookie)
    (hchunks : ∀ i q, (i, q) ∈ sd.refreshTokenChunks → ∃ j, q = Go.chunkName Code.refreshTokenCookie j)
    (hdec : sd.decompress (sd.compress tok) = tok) (hne : sd.compress tok ≠ [])
    (hf : (sd.compress tok).length < fuel)
    (hterm : sd.hasRequest = true → ∃ N : Nat, N < fuel ∧ (∀ j : Nat, j < N → chunkIsNew Code.accessTokenCookie sd j = false) ∧
        chunkIsNew Code.accessTokenCookie sd N = true) :
    ∃ sd', Code.SessionData_SetAccessToken fuel sd tok = some sd' ∧
      Code.SessionData_GetRefreshToken fuel sd' = Code.SessionData_GetRefreshToken fuel sd :=
  SetAccessToken_keeps_refresh sd tok fuel hwf hwr hchunks hdec hne hf hterm

open Oidc.Generated Oidc.CodeRefine in
/-- session.go's ten string accessors of the main session as translated (`GetCSRF`/`SetCSRF`, `GetNonce`/`SetNonce`,
    `GetCodeVerifier`/`SetCodeVerifier`, `GetEmail`/`SetEmail`, `GetIncomingPath`/`SetIncomingPath`): each getter returns exactly the
    string its setter was given — no trimming, no case folding, no truncation — and no setter changes what another field's getter
    returns -/
theorem code_main_fields (sd : Go.SessData) (v : Go.Str) :
    Code.SessionData_GetCSRF (Code.SessionData_SetCSRF sd v) = v ∧
    Code.SessionData_GetNonce (Code.SessionData_SetNonce sd v) = v ∧
    Code.SessionData_GetCodeVerifier (Code.SessionData_SetCodeVerifier sd v) = v ∧
    Code.SessionData_GetEmail (Code.SessionData_SetEmail sd v) = v ∧
    Code.SessionData_GetIncomingPath (Code.SessionData_SetIncomingPath sd v) = v ∧
    Code.SessionData_GetEmail (Code.SessionData_SetCSRF sd v) = Code.SessionData_GetEmail sd ∧
    Code.SessionData_GetEmail (Code.SessionData_SetIncomingPath sd v) = Code.SessionData_GetEmail sd ∧
    Code.SessionData_GetCSRF (Code.SessionData_SetEmail sd v) = Code.SessionData_GetCSRF sd ∧
    Code.SessionData_GetNonce (Code.SessionData_SetCSRF sd v) = Code.SessionData_GetNonce sd ∧
    Code.SessionData_GetCodeVerifier (Code.SessionData_SetNonce sd v) = Code.SessionData_GetCodeVerifier sd ∧
    Code.SessionData_GetIncomingPath (Code.SessionData_SetEmail sd v) = Code.SessionData_GetIncomingPath sd := by
  refine ⟨mainGet_mainSet _ sd v, mainGet_mainSet _ sd v, mainGet_mainSet _ sd v, mainGet_mainSet _ sd v, mainGet_mainSet _ sd v,
    mainGet_mainSet_other _ _ (by decide) sd v, mainGet_mainSet_other _ _ (by decide) sd v, mainGet_mainSet_other _ _ (by decide) sd v,
    mainGet_mainSet_other _ _ (by decide) sd v, mainGet_mainSet_other _ _ (by decide) sd v, mainGet_mainSet_other _ _ (by decide) sd v⟩

open Oidc.Generated Oidc.CodeRefine in
/-- writing a field of the main session does not change what is read of either token (the main session being another session than
    the tokens' and their chunks') -/
theorem code_main_fields_keep_tokens (fuel : Nat) (sd : Go.SessData) (v : Go.Str)
    (ha : sd.accessSession ≠ sd.mainSession) (hac : ∀ i q, (i, q) ∈ sd.accessTokenChunks → q ≠ sd.mainSession) :
    Code.SessionData_GetAccessToken fuel (Code.SessionData_SetEmail sd v) = Code.SessionData_GetAccessToken fuel sd ∧
    Code.SessionData_GetAccessToken fuel (Code.SessionData_SetCSRF sd v) = Code.SessionData_GetAccessToken fuel sd ∧
    Code.SessionData_GetAccessToken fuel (Code.SessionData_SetIncomingPath sd v) = Code.SessionData_GetAccessToken fuel sd := by
  simp only [GetAccessToken_eq]
  exact ⟨getTok_mainSet accessSide accessSide_ok fuel _ sd v ha hac, getTok_mainSet accessSide accessSide_ok fuel _ sd v ha hac,
    getTok_mainSet accessSide accessSide_ok fuel _ sd v ha hac⟩

open Oidc.Generated Oidc.CodeRefine in
/-- session.go `expireAccessTokenChunks(nil)` as translated: it terminates at the first index the request has no chunk cookie for, and
    afterwards every chunk session of the ID token that the request carried has no values left and `MaxAge = −1` — the next `Save`
    deletes exactly those cookies; nothing outside the ID token's chunk sessions is touched -/
theorem code_expireAccessTokenChunks (sd : Go.SessData) (fuel N : Nat) (hN : N < fuel)
    (hold : ∀ j : Nat, j < N → chunkIsNew Code.accessTokenCookie sd j = false) (hnew : chunkIsNew Code.accessTokenCookie sd N = true) :
    ∃ sd', Code.SessionData_expireAccessTokenChunks fuel sd false = some sd' ∧
      (∀ j : Nat, j < N → (Go.regGet sd'.reg (Go.chunkName Code.accessTokenCookie j)).Values = [] ∧
        (Go.regGet sd'.reg (Go.chunkName Code.accessTokenCookie j)).MaxAge = -1) ∧
      Frame Code.accessTokenCookie sd sd' := by
  obtain ⟨sd1, h1, hpost⟩ := expireLoop_post Code.accessTokenCookie (fun _ => true) (fun _ => rfl) N 0 sd fuel
    (fun j hj => by simpa using hold j hj) (by simpa using hnew) hN
  obtain ⟨sd2, h2, hfr⟩ := expireLoop Code.accessTokenCookie (fun _ => true) (fun _ => rfl) N 0 sd fuel
    (fun j hj => by simpa using hold j hj) (by simpa using hnew) hN
  rw [h1] at h2
  simp only [Option.some.injEq, Go.Ctl.next.injEq, Prod.mk.injEq] at h2
  obtain ⟨_, rfl⟩ := h2
  refine ⟨sd1, by rw [expireAccess_eq, h1], ?_, hfr⟩
  intro j hj
  simpa using hpost j hj

/-- a state that meets the hypotheses (premises satisfiable): a request without chunk cookies, a codec that prepends one byte -/
def exampleSD : Go.SessData :=
  ⟨true, [], fun _ => none, 86400, fun t => 'z' :: t, fun t => t.drop 1, ['m'],
   Oidc.Generated.Code.accessTokenCookie, Oidc.Generated.Code.refreshTokenCookie, [], [], [], fun _ => (['i','d'], none)⟩

example : exampleSD.accessSession = Oidc.Generated.Code.accessTokenCookie ∧ exampleSD.decompress (exampleSD.compress ['a','b']) = ['a','b'] ∧
    exampleSD.compress ['a','b'] ≠ [] ∧ Oidc.CodeRefine.chunkIsNew Oidc.Generated.Code.accessTokenCookie exampleSD 0 = true := by
  refine ⟨rfl, rfl, by simp [exampleSD], ?_⟩
  simp [Oidc.CodeRefine.chunkIsNew, Go.storeGet, Go.regHas, Go.sessIsNew, Go.regGet, exampleSD]

end Oidc.Props.C07
