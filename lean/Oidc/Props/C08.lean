import Oidc.Proofs.CodeHandler
import Oidc.Proofs.RefreshChain
import Oidc.Shapes
import Oidc.Facts
import Oidc.Proofs.Handler4
/-! # C08 — refresh: replaced once and verified, else denied (property theorems only) -/
namespace Oidc.Props.C08
open Oidc Oidc.Session Oidc.Handler Oidc.Strings

/-- `needsRefresh` is only ever signalled when a refresh token is stored (no grant without refresh token) -/
theorem no_refresh_without_token (c : Cfg) (e : Env) (v : View) (h : (classify c e v).2.1 = true) :
    getToken e.decompress v .refresh ≠ [] :=
  Oidc.Handler.classify_nr c e v h

/-- the refresh branch forwards only after exactly one grant whose ID token is non-empty, passed `VerifyToken`, parses and
    carries a non-empty e-mail; the request then continues (`authorized`: C06 gates, identity headers) with the refreshed view -/
theorem refresh_success (c : Cfg) (e : Env) (r : Req) (v : View) (h : List (Str × Str))
    (hf : (refreshFlow c e r v).resp = .forward h) :
    ∃ idRaw rt' em, e.refresh (getToken e.decompress v .refresh) = .ok idRaw rt' ∧ idRaw ≠ [] ∧
      e.verifyTok idRaw = true ∧ (e.tok idRaw).parses = true ∧ (e.tok idRaw).email = some em ∧ em ≠ [] ∧
      (authorized c e r (refreshedView c e v idRaw rt' em) [refreshedView c e v idRaw rt' em]
        [Call.refresh (getToken e.decompress v .refresh)]).resp = .forward h ∧
      (refreshFlow c e r v).calls = [Call.refresh (getToken e.decompress v .refresh)] :=
  Oidc.Handler.refreshFlow_forward c e r v h hf

/-- identity after refresh is taken from the new token: the headers are the derived ones of the refreshed view -/
theorem refresh_identity (c : Cfg) (e : Env) (r : Req) (v : View) (h : List (Str × Str))
    (hf : (refreshFlow c e r v).resp = .forward h) :
    ∃ idRaw rt' em, e.refresh (getToken e.decompress v .refresh) = .ok idRaw rt' ∧
      h = downstreamHdrs c e r (getEmail (refreshedView c e v idRaw rt' em))
            (getToken e.decompress (refreshedView c e v idRaw rt' em) .access) ∧
      (refreshFlow c e r v).saved = [refreshedView c e v idRaw rt' em] := by
  obtain ⟨idRaw, rt', em, hx, hne, hv, hp, hem, hemne, hfw, _⟩ := refresh_success c e r v h hf
  have ha := Oidc.Handler.authorized_forward c e r _ _ _ h hfw
  refine ⟨idRaw, rt', em, hx, ha.2.2.2.2.1, ?_⟩
  have hEq : refreshFlow c e r v = authorized c e r (refreshedView c e v idRaw rt' em) [refreshedView c e v idRaw rt' em]
      [Call.refresh (getToken e.decompress v .refresh)] := by
    unfold refreshFlow
    simp [hx, hne, hv, hp, hem, hemne]
  rw [hEq]; exact ha.2.2.2.2.2.2

/-- a failed grant: nothing forwarded; 401 (JSON clients) or a login redirect; exactly one grant attempted; on
    `invalid_grant` the first saved view holds no refresh token any more -/
theorem refresh_grant_failed (c : Cfg) (e : Env) (r : Req) (v : View) (ig : Bool)
    (hrt : ∀ t, e.decompress (e.compress t) = t) (hne : ∀ t, e.compress t ≠ []) (hm : 0 < c.maxSz)
    (hr : e.refresh (getToken e.decompress v .refresh) = .error ig) :
    (refreshFlow c e r v).resp.isForward = false ∧
    ((r.json = true ∧ ∃ b, (refreshFlow c e r v).resp = .status 401 b) ∨
     (r.json = false ∧ ∃ a b c' d, (refreshFlow c e r v).resp = .redirectAuth a b c' d)) ∧
    (refreshFlow c e r v).calls = [Call.refresh (getToken e.decompress v .refresh)] ∧
    (ig = true → ∃ v1 rest, (refreshFlow c e r v).saved = v1 :: rest ∧ getToken e.decompress v1 .refresh = []) :=
  Oidc.Handler.refresh_grant_failed c e r v ig hrt hne hm hr

/-- missing ID token, failed verification (bad signature, foreign audience, expired, rate-limited), unparsable token or
    missing e-mail: not forwarded -/
theorem refresh_bad_token_not_forwarded (c : Cfg) (e : Env) (r : Req) (v : View) (idRaw rt' : Str)
    (hr : e.refresh (getToken e.decompress v .refresh) = .ok idRaw rt')
    (hbad : idRaw = [] ∨ e.verifyTok idRaw = false ∨ (e.tok idRaw).parses = false ∨ (e.tok idRaw).email = none ∨ (e.tok idRaw).email = some []) :
    (refreshFlow c e r v).resp.isForward = false := by
  cases hfw : (refreshFlow c e r v).resp.isForward with
  | false => rfl
  | true =>
    exfalso
    cases hresp : (refreshFlow c e r v).resp with
    | forward h =>
      obtain ⟨i2, r2, e2, hx2, hne2, hv2, hp2, hem2, hemne2, _, _⟩ := refresh_success c e r v h hresp
      rw [hr] at hx2
      injection hx2 with hi _
      subst hi
      rcases hbad with hb | hb | hb | hb | hb
      · exact hne2 hb
      · rw [hb] at hv2; cases hv2
      · rw [hb] at hp2; cases hp2
      · rw [hb] at hem2; cases hem2
      · rw [hb] at hem2; injection hem2 with h'; exact hemne2 h'.symm
    | _ => rw [hresp] at hfw; simp [Resp.isForward] at hfw

/-- the refresh branch never answers 5xx -/
theorem refresh_never_5xx (c : Cfg) (e : Env) (r : Req) (v : View) : (refreshFlow c e r v).resp.code < 500 :=
  Oidc.Handler.refreshFlow_code_lt_500 c e r v


/-- completeness of one refresh: the stored ID token needs a refresh, a refresh token is stored, the grant returns an ID token
    that passes `VerifyToken`, parses and carries a non-empty allowed e-mail (and an admitted role): the request is forwarded
    with the identity of the NEW token after exactly one grant, and the response stores the refreshed session -/
theorem refresh_completes (c : Cfg) (e : Env) (r : Req) (v : View) (idRaw rt' em : Str)
    (hpath : excludedPath c r.path = false ∧ r.path ≠ c.logout ∧ r.path ≠ c.callback) (hpre : r.preflight = false)
    (hnr : (classify c e v).2.1 = true) (hex : (classify c e v).2.2 = false)
    (hans : e.refresh (getToken e.decompress v .refresh) = .ok idRaw rt')
    (hid : idRaw ≠ []) (hver : e.verifyTok idRaw = true) (hparse : (e.tok idRaw).parses = true)
    (hemail : (e.tok idRaw).email = some em) (hem : em ≠ [])
    (hgetem : getEmail (refreshedView c e v idRaw rt' em) = em)
    (hdom : isAllowedDomain c.allowDomains em = true)
    (hrole : roleGate c e (getToken e.decompress (refreshedView c e v idRaw rt' em) .access) = true) :
    (serveV c e r v).resp = .forward (downstreamHdrs c e r em (getToken e.decompress (refreshedView c e v idRaw rt' em) .access)) ∧
    (serveV c e r v).calls = [Call.refresh (getToken e.decompress v .refresh)] ∧
    (serveV c e r v).saved = [refreshedView c e v idRaw rt' em] :=
  Oidc.World.refresh_completes c e r v idRaw rt' em hpath hpre hnr hex hans hid hver hparse hemail hem hgetem hdom hrole

/-- the refreshed session holds the new ID token, the new token's e-mail, and the new refresh token — or keeps the old one if the
    grant returned none -/
theorem refreshed_session_holds (c : Cfg) (e : Env) (v : View) (idRaw rt' em : Str)
    (hrt : ∀ t, e.decompress (e.compress t) = t) (hne : ∀ t, e.compress t ≠ []) (hm : 0 < c.maxSz) :
    getToken e.decompress (refreshedView c e v idRaw rt' em) .access = idRaw ∧
    getToken e.decompress (refreshedView c e v idRaw rt' em) .refresh =
      (if rt' = [] then getToken e.decompress v .refresh else rt') ∧
    getEmail (refreshedView c e v idRaw rt' em) = em :=
  Oidc.World.refreshedView_holds c e v idRaw rt' em hrt hne hm

/-- **chains.** over any chain of successive refreshes of one browser (any number of links, rotating refresh tokens or not): every
    refreshing request performs exactly one grant and is forwarded with the identity of the token that grant returned, and the
    browser ends up holding the session of the last grant -/
theorem refresh_chain (c : Cfg) (fuel : Nat) (links : List Oidc.World.Link) (v : View)
    (hg : Oidc.World.GoodChain c fuel v links) :
    (Oidc.World.runBrowser c fuel (saveApply v) (links.map (fun s => (s.e, s.r)))).1 = saveApply (Oidc.World.chainView c v links) ∧
    ∀ p ∈ links.zip (Oidc.World.runBrowser c fuel (saveApply v) (links.map (fun s => (s.e, s.r)))).2,
      (∃ tokNow, p.2.resp = .forward (downstreamHdrs c p.1.e p.1.r p.1.em tokNow)) ∧
      (∃ rtUsed, p.2.calls = [Call.refresh rtUsed]) :=
  Oidc.World.refresh_chain c fuel links v hg

/-! non-vacuity of the chain theorem: a concrete session (logged in at 0, ID token expiring at 120, grace 60) refreshed at 100 by
    a provider that returns a new token and no new refresh token satisfies every assumption of a one-link chain -/
section NonVacuity
open Oidc.World
def nvC : Cfg where
  excluded := ["/pub".toList]
  callback := "/cb".toList
  logout := "/cb/logout".toList
  grace := 60
  maxAge := 86400
  pkce := true
  allowDomains := []
  allowRoles := []
  templates := []
  endSession := []
  postLogout := "/".toList
  maxIncoming := 1024
  maxSz := 2000
def oldTok : TokInfo := { parses := true, verdict := fun _ => .accept, exp := 120, email := some "u@x.io".toList, nonce := none, groups := .absent, roles := .absent }
def newTok : TokInfo := { parses := true, verdict := fun _ => .accept, exp := 9000, email := some "u@x.io".toList, nonce := none, groups := .absent, roles := .absent }
def nvE (now : Int) : Env where
  now := now
  tok := fun t => if t = "new".toList then newTok else oldTok
  verifyTok := fun _ => true
  exchange := fun _ _ _ => .failed
  refresh := fun _ => .ok "new".toList []
  rnd := fun _ => []
  s256 := id
  exec := fun _ _ => none
  compress := fun t => 'z' :: t
  decompress := List.tail
def nvR : Req := { method := "GET".toList, path := "/x".toList, rawURI := "/x".toList, qError := [], qErrDesc := [], qState := [], qCode := [], json := false, preflight := false, base := "http://a".toList, hdrs := [] }
def nvV0 : View := { main := [], whole := fun _ => [], chunks := fun _ => [] }
def nvV : View := loggedInView nvC (nvE 0) nvV0 "old".toList "rt".toList "u@x.io".toList
def nvL : Link := { e := nvE 100, r := nvR, idRaw := "new".toList, rt' := [], em := "u@x.io".toList }

theorem nv_reads : getSession nvC.maxAge (saveApply nvV) nvL.e.now 5 = nvV := by
  rw [getSession_saved _ _ _ _ (by intro k; cases k <;> decide +kernel)]
  unfold ageCheck
  have h : pint nvV.main "created_at" = some 0 := by decide +kernel
  rw [h]
  rfl

example : GoodChain nvC 5 nvV [nvL] := by
  refine ⟨⟨nv_reads, ?_, ?_, ?_, ?_, rfl, ?_, ?_, ?_, ?_, ?_, ?_, ?_, ?_⟩, trivial⟩ <;> decide +kernel

end NonVacuity

/-! obligations against the regenerated shapes: the functions these theorems rest on still have the steps, guards, status
    codes and literals the model was written against (`Oidc/Shapes.lean`) -/
theorem shape_ServeHTTP_ok : Oidc.Shapes.Shape_ServeHTTP := by unfold Oidc.Shapes.Shape_ServeHTTP; rfl
theorem shape_isUserAuthenticated_ok : Oidc.Shapes.Shape_isUserAuthenticated := by unfold Oidc.Shapes.Shape_isUserAuthenticated; rfl
theorem shape_refreshToken_ok : Oidc.Shapes.Shape_refreshToken := by unfold Oidc.Shapes.Shape_refreshToken; rfl


/-! ## Program text of the helpers these theorems also rest on (constructors, accessors, token endpoint, configuration) -/
theorem text_TraefikOidc_GetNewTokenWithRefreshToken_ok : Oidc.Shapes.Text_TraefikOidc_GetNewTokenWithRefreshToken := by unfold Oidc.Shapes.Text_TraefikOidc_GetNewTokenWithRefreshToken; rfl
theorem text_TraefikOidc_getNewTokenWithRefreshToken_ok : Oidc.Shapes.Text_TraefikOidc_getNewTokenWithRefreshToken := by unfold Oidc.Shapes.Text_TraefikOidc_getNewTokenWithRefreshToken; rfl
theorem text_TraefikOidc_exchangeTokens_ok : Oidc.Shapes.Text_TraefikOidc_exchangeTokens := by unfold Oidc.Shapes.Text_TraefikOidc_exchangeTokens; rfl
theorem text_SessionData_SetEmail_ok : Oidc.Shapes.Text_SessionData_SetEmail := by unfold Oidc.Shapes.Text_SessionData_SetEmail; rfl
theorem text_SessionData_GetEmail_ok : Oidc.Shapes.Text_SessionData_GetEmail := by unfold Oidc.Shapes.Text_SessionData_GetEmail; rfl

/-! ## The same statements about the code itself: the functions below are `Oidc.Generated.Code`, which `tools/go2lean` translates
    from /repo's source, statement by statement, on every run (meaning of the Go constructs: `Oidc/GoLib.lean`) -/
open Oidc.Generated Oidc.CodeRefine in
/-- main.go `isUserAuthenticated` as translated is the model's `classify`: which sessions count as established, which are due
    for a refresh, which are over -/
theorem code_isUserAuthenticated (c : Cfg) (e : Env) (v : View) (t : Go.Inst) (sess : Go.Sess)
    (hA : sess.GetAuthenticated = getAuth c.maxAge e.now v)
    (hR : sess.GetRefreshToken = getToken e.decompress v .refresh)
    (hT : sess.GetAccessToken = getToken e.decompress v .access)
    (hG : t.refreshGracePeriod = c.grace * 1000000000)
    (hP : (t.parseJWT sess.GetAccessToken).2.isNone = (e.tok sess.GetAccessToken).parses)
    (hV : (Code.TraefikOidc_VerifyJWTSignatureAndClaims (e.now * 1000000000) t (t.parseJWT sess.GetAccessToken).1 sess.GetAccessToken).isNone
            = decide ((e.tok sess.GetAccessToken).verdict e.now = .accept))
    (hE : (e.tok sess.GetAccessToken).verdict e.now = .accept →
            ∃ x, Go.asF64 (Go.mapGet (t.parseJWT sess.GetAccessToken).1.Claims "exp".toList) = (x, true) ∧
                 x.trunc = (e.tok sess.GetAccessToken).exp) :
    Code.TraefikOidc_isUserAuthenticated (e.now * 1000000000) t sess = classify c e v :=
  isUserAuthenticated_refines c e v t sess hA hR hT hG hP hV hE

end Oidc.Props.C08
