import Oidc.Proofs.CodeConfig
import Oidc.Shapes
import Oidc.Proofs.Codec
import Oidc.Facts
/-! # C09 — session cookies are opaque and tamper-evident without the session key (property theorems only)

`Oidc.Codec` models gorilla/securecookie's framing `b64( ts | b64(body) | mac hk (name | ts | b64(body)) )` with the
primitives as parameters.  Cryptographic strength is **assumed, not proved**: HMAC-SHA256 enters as `MacInj` (distinct
(key, message) pairs give distinct tags — the explicit stand-in for unforgeability), AES-CTR as a stream cipher whose
keystream is unknown without the block key.  What is proved is that the framing makes these assumptions sufficient. -/
namespace Oidc.Props.C09
open Oidc Oidc.Codec

/-- tamper evidence: anything `Decode` accepts carries exactly the MAC, under the configured hash key, of this cookie name, the
    timestamp and the body it was accepted with (and respects the length limit) -/
theorem tamper_evident (mac : Bytes → Bytes → Bytes) (unb64 : Bytes → Option Bytes) (hk name : Bytes) (maxLen : Nat) (s ts body : Bytes)
    (h : decode mac unb64 hk name maxLen s = some (ts, body)) :
    s.length ≤ maxLen ∧ ∃ b tag, unb64 s = some b ∧ split3 b = some (ts, body, tag) ∧ tag = mac hk (frame name ts body) :=
  Oidc.Codec.tamper_evident mac unb64 hk name maxLen s ts body h

/-- the MAC input cannot be re-parsed ambiguously: for names and timestamps without '|' the framing is injective -/
theorem frame_injective (n1 t1 b1 n2 t2 b2 : Bytes)
    (hn1 : ∀ x ∈ n1, x ≠ bar) (ht1 : ∀ x ∈ t1, x ≠ bar) (hn2 : ∀ x ∈ n2, x ≠ bar) (ht2 : ∀ x ∈ t2, x ≠ bar)
    (h : frame n1 t1 b1 = frame n2 t2 b2) : n1 = n2 ∧ t1 = t2 ∧ b1 = b2 :=
  Oidc.Codec.frame_injective n1 t1 b1 n2 t2 b2 hn1 ht1 hn2 ht2 h

/-- under `MacInj`: a value produced for another cookie name, or under another hash key, is never accepted — if a value minted
    as `encode hk' name' ts' body'` is accepted under `(hk, name)` then `hk = hk'`, `name = name'` and it is read as exactly the
    `(ts', body')` it was minted with (renamed cookies, values swapped between names, values minted under another key) -/
theorem foreign_rejected (mac : Bytes → Bytes → Bytes) (b64 : Bytes → Bytes) (unb64 : Bytes → Option Bytes)
    (hun : ∀ b, unb64 (b64 b) = some b)
    (hinj : ∀ k m k' m', mac k m = mac k' m' → k = k' ∧ m = m')
    (hk name hk' name' ts' body' ts body : Bytes) (maxLen : Nat)
    (hn : ∀ x ∈ name, x ≠ bar) (hn' : ∀ x ∈ name', x ≠ bar) (ht' : ∀ x ∈ ts', x ≠ bar) (hb' : ∀ x ∈ body', x ≠ bar)
    (h : decode mac unb64 hk name maxLen (encode mac b64 hk' name' ts' body') = some (ts, body)) :
    hk = hk' ∧ name = name' ∧ ts = ts' ∧ body = body' := by
  obtain ⟨_, b, tag, hb, hs, htag⟩ := tamper_evident mac unb64 hk name maxLen _ ts body h
  unfold encode at hb
  rw [hun] at hb
  injection hb with hb
  subst hb
  rw [split3_frame ts' body' _ ht' hb'] at hs
  injection hs with hs
  injection hs with h1 h2
  injection h2 with h2 h3
  subst h1; subst h2
  rw [← h3] at htag
  obtain ⟨hkk, hfr⟩ := hinj _ _ _ _ htag
  have hts : ∀ x ∈ ts', x ≠ bar := ht'
  obtain ⟨e1, _, _⟩ := frame_injective name' ts' body' name ts' body' hn' hts hn hts hfr
  exact ⟨hkk.symm, e1.symm, rfl, rfl⟩

/-- what `Encode` produces, `Decode` accepts (so authentic cookies of the deployment keep working: C04, C07) -/
theorem decode_encode (mac : Bytes → Bytes → Bytes) (b64 : Bytes → Bytes) (unb64 : Bytes → Option Bytes)
    (hun : ∀ b, unb64 (b64 b) = some b) (hk name ts body : Bytes) (maxLen : Nat)
    (h1 : ∀ x ∈ ts, x ≠ bar) (h2 : ∀ x ∈ body, x ≠ bar)
    (hlen : (encode mac b64 hk name ts body).length ≤ maxLen) :
    decode mac unb64 hk name maxLen (encode mac b64 hk name ts body) = some (ts, body) :=
  Oidc.Codec.decode_encode mac b64 unb64 hun hk name ts body maxLen h1 h2 hlen

/-- opacity: with a block key, for every other content `m'` of the same length there is a keystream under which `m'` produces the
    very ciphertext observed for `m` — without the keystream the cookie bytes are consistent with every equal-length content
    (the *length* of the compressed token is not hidden) -/
theorem opaque_contents (k m m' : Bytes) (hl : m.length = m'.length) (hk : k.length = m.length) :
    ∃ k', k'.length = m'.length ∧ xor k' m' = xor k m :=
  Oidc.Codec.opaque_otp k m m' hl hk

/-- obligation against the regenerated facts: the cookie store is built from (hash key, block key) pairs only — every codec encrypts,
    so there is no signing-only codec `EncodeMulti` could fall back to -/
def GoodCodec : Prop := 2 ≤ Oidc.Generated.cookieStoreKeyArgs ∧ Oidc.Generated.cookieStoreAllPairsEncrypted = true ∧ Oidc.Generated.securecookieMaxLen = 4096 ∧ 32 ≤ Oidc.Generated.minEncryptionKeyLength
instance : Decidable GoodCodec := by unfold GoodCodec; infer_instance
theorem facts_ok : GoodCodec := by decide
theorem current_encrypted : Oidc.Current.cookiesEncrypted = true := by decide

/-! non-vacuity: a toy MAC (key ++ message is injective for fixed key length is not needed here: we only run the functions) -/
def exMac (k m : Bytes) : Bytes := k ++ [0] ++ m
example : decode exMac (fun b => some b) [7] [1, 2] 100 (encode exMac id [7] [1, 2] [5, 5] [9]) = some ([5, 5], [9]) := by decide
example : decode exMac (fun b => some b) [7] [1, 3] 100 (encode exMac id [7] [1, 2] [5, 5] [9]) = none := by decide
example : decode exMac (fun b => some b) [8] [1, 2] 100 (encode exMac id [7] [1, 2] [5, 5] [9]) = none := by decide

/-! obligations against the regenerated program text of session.go: the functions these theorems rest on read, statement for
    statement, as they did when the session model was written after them (`Oidc/Shapes.lean`) -/
theorem text_deriveBlockKey_ok : Oidc.Shapes.Text_deriveBlockKey := by unfold Oidc.Shapes.Text_deriveBlockKey; rfl
theorem text_NewSessionManager_ok : Oidc.Shapes.Text_NewSessionManager := by unfold Oidc.Shapes.Text_NewSessionManager; rfl
theorem text_SessionManager_GetSession_ok : Oidc.Shapes.Text_SessionManager_GetSession := by unfold Oidc.Shapes.Text_SessionManager_GetSession; rfl
theorem text_SessionManager_getTokenChunkSessions_ok : Oidc.Shapes.Text_SessionManager_getTokenChunkSessions := by unfold Oidc.Shapes.Text_SessionManager_getTokenChunkSessions; rfl

/-! further obligations against the regenerated program text (`Oidc/Shapes.lean`): constructor wiring and URL builders -/
theorem text_New_ok : Oidc.Shapes.Text_New := by unfold Oidc.Shapes.Text_New; rfl


/-! ## Program text of the helpers these theorems also rest on (constructors, accessors, token endpoint, configuration) -/
theorem text_Config_Validate_ok : Oidc.Shapes.Text_Config_Validate := by unfold Oidc.Shapes.Text_Config_Validate; rfl
theorem text_CreateConfig_ok : Oidc.Shapes.Text_CreateConfig := by unfold Oidc.Shapes.Text_CreateConfig; rfl


/-! ### the configuration gate, translated from settings.go on every run -/

/-- a configuration `Config.Validate` accepts has a session key of at least 32 bytes (the key space the opacity argument assumes) -/
theorem code_validated_session_key_length (c : Go.Config) (h : Oidc.Generated.Code.Config_Validate c = none) :
    (32 : Int) ≤ c.SessionEncryptionKey.length := (Oidc.CodeConfig.Validate_none c h).key

end Oidc.Props.C09
