import Oidc.Shapes
import Oidc.Proofs.Handler3
import Oidc.Proofs.Handler
/-! # C10 — identity headers seen downstream come only from the verified session (property theorems only)

Header names are canonical MIME names in the model (`net/http` canonicalises on parse; the harness sends every spelling). -/
namespace Oidc.Props.C10
open Oidc Oidc.Session Oidc.Handler Oidc.Strings

/-- for every protected name (the five identity headers and every configured templated header) the values seen downstream
    are exactly the derived ones: nothing the client supplied under that name survives -/
theorem identity_from_session (c : Cfg) (e : Env) (r : Req) (email tokRaw : Str) (n : Str)
    (hn : n ∈ protectedNames c) :
    (downstreamHdrs c e r email tokRaw).filter (fun h => h.1 == n) =
      (derivedHdrs c e email tokRaw).filter (fun h => h.1 == n) :=
  Oidc.Handler.identity_from_session c e r email tokRaw n hn

/-- non-interference: two requests that differ only in client headers produce the same protected headers -/
theorem identity_noninterference (c : Cfg) (e : Env) (r1 r2 : Req) (email tokRaw : Str) (n : Str)
    (hn : n ∈ protectedNames c) :
    (downstreamHdrs c e r1 email tokRaw).filter (fun h => h.1 == n) =
      (downstreamHdrs c e r2 email tokRaw).filter (fun h => h.1 == n) :=
  Oidc.Handler.identity_noninterference c e r1 r2 email tokRaw n hn

/-- the five fixed names are protected under every configuration, and so is every templated header name -/
theorem fixed_names_protected (c : Cfg) (n : Str) (h : n ∈ identityNames) : n ∈ protectedNames c := by
  unfold protectedNames; exact List.mem_append_left _ h
theorem template_names_protected (c : Cfg) (n : Str) (id : Nat) (h : (n, id) ∈ c.templates) : n ∈ protectedNames c := by
  unfold protectedNames; exact List.mem_append_right _ (List.mem_map.mpr ⟨(n, id), h, rfl⟩)

/-- every forwarded request carries exactly `downstreamHdrs` of the session (or of the refreshed session) -/
theorem forwarded_headers (c : Cfg) (e : Env) (r : Req) (v : View) (earlier : List View) (calls : List Call) (h : List (Str × Str))
    (hf : (authorized c e r v earlier calls).resp = .forward h) :
    h = downstreamHdrs c e r (getEmail v) (getToken e.decompress v .access) :=
  (Oidc.Handler.authorized_forward c e r v earlier calls h hf).2.2.2.2.1

/-! non-vacuity: a client-supplied `X-User-Groups: admin` does not survive when the token has no groups -/
def exTok : TokInfo := { parses := true, verdict := fun _ => .accept, exp := 10, email := none, nonce := none, groups := .absent, roles := .absent }
def exE : Env where
  now := 0
  tok := fun _ => exTok
  verifyTok := fun _ => true
  exchange := fun _ _ _ => .failed
  refresh := fun _ => .error false
  rnd := fun _ => []
  s256 := id
  exec := fun _ _ => none
  compress := id
  decompress := id
def exC : Cfg where
  excluded := []
  callback := []
  logout := []
  grace := 0
  maxAge := 0
  pkce := false
  allowDomains := []
  allowRoles := []
  templates := []
  endSession := []
  postLogout := []
  maxIncoming := 0
  maxSz := 1
def exR : Req where
  method := []
  path := []
  rawURI := []
  qError := []
  qErrDesc := []
  qState := []
  qCode := []
  json := false
  preflight := false
  base := []
  hdrs := [("X-User-Groups".toList, "admin".toList), ("X-Other".toList, "kept".toList)]
example : (downstreamHdrs exC exE exR "a@b".toList "T".toList).filter (fun h => h.1 == "X-User-Groups".toList) = [] := by decide +kernel
example : (downstreamHdrs exC exE exR "a@b".toList "T".toList).filter (fun h => h.1 == "X-Other".toList) = [("X-Other".toList, "kept".toList)] := by decide +kernel

/-! obligations against the regenerated shapes: the functions these theorems rest on still have the steps, guards, status
    codes and literals the model was written against (`Oidc/Shapes.lean`) -/
theorem shape_processAuthorizedRequest_ok : Oidc.Shapes.Shape_processAuthorizedRequest := by unfold Oidc.Shapes.Shape_processAuthorizedRequest; rfl

/-! further obligations against the regenerated program text (`Oidc/Shapes.lean`): constructor wiring and URL builders -/
theorem text_New_ok : Oidc.Shapes.Text_New := by unfold Oidc.Shapes.Text_New; rfl


/-! ## Program text of the helpers these theorems also rest on (constructors, accessors, token endpoint, configuration) -/
theorem text_handleError_ok : Oidc.Shapes.Text_handleError := by unfold Oidc.Shapes.Text_handleError; rfl

/-! further functions these theorems rest on -/
theorem shape_ServeHTTP_ok : Oidc.Shapes.Shape_ServeHTTP := by unfold Oidc.Shapes.Shape_ServeHTTP; rfl
theorem text_SessionData_GetAccessToken_ok : Oidc.Shapes.Text_SessionData_GetAccessToken := by unfold Oidc.Shapes.Text_SessionData_GetAccessToken; rfl
theorem text_SessionData_GetEmail_ok : Oidc.Shapes.Text_SessionData_GetEmail := by unfold Oidc.Shapes.Text_SessionData_GetEmail; rfl

end Oidc.Props.C10
