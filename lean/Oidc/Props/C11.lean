import Oidc.Proofs.CodeStrings
import Oidc.Shapes
import Oidc.Facts
import Oidc.Proofs.World
import Oidc.Proofs.WorldHist3
import Oidc.Proofs.Handler2
/-! # C11 — logout ends the session for every session shape (property theorems only) -/
namespace Oidc.Props.C11
open Oidc Oidc.Session Oidc.Handler Oidc.World Oidc.Strings

/-- after the logout response has been applied to the browser's cookies — whatever jar (any token sizes, any chunk counts,
    with or without refresh token) the browser held — the next request, whatever it is, whenever it comes, whichever
    instance answers, is not forwarded; a callback presented with that jar creates no session and contacts nobody.
    (The next request after that starts from the jar this response left: a login redirect's or again a cleared one — the
    authenticated flag can only come back through a successful login, `Props.C01.flag_origin`.) -/
theorem logout_ends (c : Cfg) (e0 e1 : Env) (r0 r1 : Req) (j : Jar) (fuel : Nat)
    (hlogout : excludedPath c r0.path = false ∧ r0.path = c.logout)
    (hx : excludedPath c r1.path = false) :
    let j1 := (serveJar c e0 r0 j fuel).2
    ((serveJar c e1 r1 j1 fuel).1.resp.isForward = false) ∧
    (r1.path = c.callback → r1.path ≠ c.logout →
      (serveJar c e1 r1 j1 fuel).1.calls = [] ∧ (serveJar c e1 r1 j1 fuel).1.saved = []) :=
  Oidc.World.logout_ends c e0 e1 r0 r1 j fuel hlogout hx

/-- **history.** after the logout response has been applied, take any sequence `post` of further requests of that browser,
    served by any instances (`CodecOK`: they share the one gzip+base64 codec; `hfuel`: the chunk-loading loop of the model is
    given enough fuel for every session this history stores — the code's loop is unbounded).  If a request at the end of it is
    forwarded, then some request of `post` was a callback that completed a new login: it stored the session of an ID token that
    passed `VerifyToken`.  In particular no refresh can bring the session back: the jar holds no refresh token until then. -/
theorem no_forward_until_new_login (c : Cfg) (fuel : Nat) (d : Str → Str) (hm : 0 < c.maxSz)
    (e0 : Env) (r0 : Req) (j : Jar) (hlogout : excludedPath c r0.path = false ∧ r0.path = c.logout)
    (post : List (Env × Req)) (henv : ∀ p ∈ post, CodecOK d p.1)
    (hfuel : ∀ o ∈ (runBrowser c fuel (serveJar c e0 r0 j fuel).2 post).2, ∀ vl ∈ o.saved, ∀ k, (vl.chunks k).length ≤ fuel)
    (e : Env) (r : Req) (hde : e.decompress = d) (hd : List (Str × Str))
    (hf : (serveJar c e r (runBrowser c fuel (serveJar c e0 r0 j fuel).2 post).1 fuel).1.resp = .forward hd) :
    ∃ p ∈ post.zip (runBrowser c fuel (serveJar c e0 r0 j fuel).2 post).2, StepLogin c p :=
  Oidc.World.after_logout_no_forward_until_login c fuel d hm e0 r0 j hlogout post henv hfuel e r hde hd hf

/-- a jar without the authenticated flag and without refresh token stays so over any history in which no callback completes
    a login (the invariant behind the statement above; it also covers a browser that never logged in) -/
theorem dead_stays_dead (c : Cfg) (fuel : Nat) (d : Str → Str) (hm : 0 < c.maxSz) (steps : List (Env × Req)) (j : Jar)
    (hd : DeadJar d fuel j) (henv : ∀ p ∈ steps, CodecOK d p.1)
    (hfuel : ∀ o ∈ (runBrowser c fuel j steps).2, ∀ vl ∈ o.saved, ∀ k, (vl.chunks k).length ≤ fuel) :
    DeadJar d fuel (runBrowser c fuel j steps).1 ∨ ∃ p ∈ steps.zip (runBrowser c fuel j steps).2, StepLogin c p :=
  Oidc.World.dead_history c fuel d hm steps j hd henv hfuel

/-! non-vacuity: an environment with a round-tripping codec; the empty jar is dead -/
def exE : Env where
  now := 0
  tok := fun _ => { parses := false, verdict := fun _ => .invalid, exp := 0, email := none, nonce := none, groups := .absent, roles := .absent }
  verifyTok := fun _ => false
  exchange := fun _ _ _ => .failed
  refresh := fun _ => .error false
  rnd := fun _ => []
  s256 := id
  exec := fun _ _ => none
  compress := fun t => 'z' :: t
  decompress := List.tail
example : CodecOK List.tail exE := ⟨rfl, fun _ => rfl, fun _ => by simp [exE]⟩
example : DeadJar List.tail 3 (fun _ => none) := ⟨rfl, by decide⟩

/-- the logout response: every loaded cookie cleared, no provider call, redirect to the end-session endpoint with the ID token
    as hint and the post-logout URI when both are known, otherwise to the post-logout URI -/
theorem logout_location (c : Cfg) (e : Env) (r : Req) (v : View) :
    (handleLogout c e r v).saved = [clearView v] ∧ (handleLogout c e r v).calls = [] ∧
    ((c.endSession ≠ [] ∧ getToken e.decompress v .access ≠ [] ∧
        (handleLogout c e r v).resp = .redirectEndSession (getToken e.decompress v .access) (postLogoutURI c r)) ∨
     ((c.endSession = [] ∨ getToken e.decompress v .access = []) ∧
        (handleLogout c e r v).resp = .redirectPostLogout (postLogoutURI c r))) :=
  Oidc.Handler.logout_spec c e r v

/-- the post-logout URI: empty → `/` on the request's own origin; relative → resolved against the request's own origin;
    absolute (`http…`) → as configured -/
theorem postLogout_resolution (c : Cfg) (r : Req) :
    (c.postLogout = [] → postLogoutURI c r = r.base ++ ['/']) ∧
    (c.postLogout ≠ [] → "http".toList.isPrefixOf c.postLogout = true → postLogoutURI c r = c.postLogout) ∧
    (c.postLogout ≠ [] → "http".toList.isPrefixOf c.postLogout = false → postLogoutURI c r = r.base ++ c.postLogout) := by
  unfold postLogoutURI
  refine ⟨fun h => by rw [if_pos h], fun h1 h2 => by rw [if_neg h1, if_pos h2], fun h1 h2 => ?_⟩
  rw [if_neg h1, if_neg (by rw [h2]; exact Bool.false_ne_true)]

/-- a cleared view is not authenticated and holds no tokens -/
theorem cleared_is_anonymous (c : Cfg) (e : Env) (v : View) : classify c e (clearView v) = (false, false, false) :=
  Oidc.World.classify_clear c e v


/-! obligations against the regenerated shapes: the functions these theorems rest on still have the steps, guards, status
    codes and literals the model was written against (`Oidc/Shapes.lean`) -/
theorem shape_ServeHTTP_ok : Oidc.Shapes.Shape_ServeHTTP := by unfold Oidc.Shapes.Shape_ServeHTTP; rfl
theorem shape_handleLogout_ok : Oidc.Shapes.Shape_handleLogout := by unfold Oidc.Shapes.Shape_handleLogout; rfl

theorem shape_determineScheme_ok : Oidc.Shapes.Shape_determineScheme := by unfold Oidc.Shapes.Shape_determineScheme; rfl
theorem shape_determineHost_ok : Oidc.Shapes.Shape_determineHost := by unfold Oidc.Shapes.Shape_determineHost; rfl
/-! obligations against the regenerated program text of session.go: the functions these theorems rest on read, statement for
    statement, as they did when the session model was written after them (`Oidc/Shapes.lean`) -/
theorem text_SessionData_Clear_ok : Oidc.Shapes.Text_SessionData_Clear := by unfold Oidc.Shapes.Text_SessionData_Clear; rfl
theorem text_SessionData_clearTokenChunks_ok : Oidc.Shapes.Text_SessionData_clearTokenChunks := by unfold Oidc.Shapes.Text_SessionData_clearTokenChunks; rfl
theorem text_SessionData_Save_ok : Oidc.Shapes.Text_SessionData_Save := by unfold Oidc.Shapes.Text_SessionData_Save; rfl
theorem text_SessionData_deleteStaleChunkCookies_ok : Oidc.Shapes.Text_SessionData_deleteStaleChunkCookies := by unfold Oidc.Shapes.Text_SessionData_deleteStaleChunkCookies; rfl

/-! further obligations against the regenerated program text (`Oidc/Shapes.lean`): constructor wiring and URL builders -/
theorem text_BuildLogoutURL_ok : Oidc.Shapes.Text_BuildLogoutURL := by unfold Oidc.Shapes.Text_BuildLogoutURL; rfl


/-! ## Program text of the helpers these theorems also rest on (constructors, accessors, token endpoint, configuration) -/
theorem text_TraefikOidc_RevokeTokenWithProvider_ok : Oidc.Shapes.Text_TraefikOidc_RevokeTokenWithProvider := by unfold Oidc.Shapes.Text_TraefikOidc_RevokeTokenWithProvider; rfl

/-! ## The same statements about the code itself: the functions below are `Oidc.Generated.Code`, which `tools/go2lean` translates
    from /repo's source, statement by statement, on every run (meaning of the Go constructs: `Oidc/GoLib.lean`) -/
open Oidc.Generated Oidc.CodeRefine in
/-- main.go `determineScheme` / `determineHost` as translated give the base the post-logout URI is resolved against -/
theorem code_origin (t : Go.Inst) (q : RawReq) :
    Code.TraefikOidc_determineScheme t (goReq q) ++ "://".toList ++ Code.TraefikOidc_determineHost t (goReq q) = (digest q).base := by
  rw [determineScheme_refines, determineHost_refines]; rfl

end Oidc.Props.C11
