import Oidc.Proofs.World
import Oidc.Proofs.Handler2
/-! # C11 — logout ends the session for every session shape (property theorems only) -/
namespace Oidc.Props.C11
open Oidc Oidc.Session Oidc.Handler Oidc.World Oidc.Strings

/-- after the logout response has been applied to the browser's cookies — whatever jar (any token sizes, any chunk counts,
    with or without refresh token) the browser held — the next request, whatever it is, whenever it comes, whichever
    instance answers, is not forwarded; a callback presented with that jar creates no session and contacts nobody.
    (The next request after that starts from the jar this response left: a login redirect's or again a cleared one — the
    authenticated flag can only come back through a successful login, `Props.C01.flag_origin`.) -/
theorem logout_ends (c : Cfg) (e0 e1 : Env) (r0 r1 : Req) (j : Jar) (fuel : Nat)
    (hlogout : excludedPath c r0.path = false ∧ r0.path = c.logout)
    (hx : excludedPath c r1.path = false) :
    let j1 := (serveJar c e0 r0 j fuel).2
    ((serveJar c e1 r1 j1 fuel).1.resp.isForward = false) ∧
    (r1.path = c.callback → r1.path ≠ c.logout →
      (serveJar c e1 r1 j1 fuel).1.calls = [] ∧ (serveJar c e1 r1 j1 fuel).1.saved = []) :=
  Oidc.World.logout_ends c e0 e1 r0 r1 j fuel hlogout hx

/-- the logout response: every loaded cookie cleared, no provider call, redirect to the end-session endpoint with the ID token
    as hint and the post-logout URI when both are known, otherwise to the post-logout URI -/
theorem logout_location (c : Cfg) (e : Env) (r : Req) (v : View) :
    (handleLogout c e r v).saved = [clearView v] ∧ (handleLogout c e r v).calls = [] ∧
    ((c.endSession ≠ [] ∧ getToken e.decompress v .access ≠ [] ∧
        (handleLogout c e r v).resp = .redirectEndSession (getToken e.decompress v .access) (postLogoutURI c r)) ∨
     ((c.endSession = [] ∨ getToken e.decompress v .access = []) ∧
        (handleLogout c e r v).resp = .redirectPostLogout (postLogoutURI c r))) :=
  Oidc.Handler.logout_spec c e r v

/-- the post-logout URI: empty → `/` on the request's own origin; relative → resolved against the request's own origin;
    absolute (`http…`) → as configured -/
theorem postLogout_resolution (c : Cfg) (r : Req) :
    (c.postLogout = [] → postLogoutURI c r = r.base ++ ['/']) ∧
    (c.postLogout ≠ [] → "http".toList.isPrefixOf c.postLogout = true → postLogoutURI c r = c.postLogout) ∧
    (c.postLogout ≠ [] → "http".toList.isPrefixOf c.postLogout = false → postLogoutURI c r = r.base ++ c.postLogout) := by
  unfold postLogoutURI
  refine ⟨fun h => by rw [if_pos h], fun h1 h2 => by rw [if_neg h1, if_pos h2], fun h1 h2 => ?_⟩
  rw [if_neg h1, if_neg (by rw [h2]; exact Bool.false_ne_true)]

/-- a cleared view is not authenticated and holds no tokens -/
theorem cleared_is_anonymous (c : Cfg) (e : Env) (v : View) : classify c e (clearView v) = (false, false, false) :=
  Oidc.World.classify_clear c e v

end Oidc.Props.C11
