import Oidc.Proofs.CodeCache
import Oidc.Proofs.CodeCompose
import Oidc.Shapes
import Oidc.Proofs.CacheComplete
import Oidc.Facts
/-! # C12 — the cache returns only the latest unexpired value for a key (property theorems only) -/
namespace Oidc.Props.C12
open Oidc.Cache

/-- a lookup hit returns the value of the most recent store of that key, not deleted since, lifetime not elapsed -/
theorem get_sound (se : Bool) (cap : Nat) (ops : List Op) (t0 now : Int) (k : String) (v : Nat)
    (hm : Mono t0 ops now) (h : (get se (run se (init cap) ops) now k).2 = some v) :
    ∃ ts ttl, spec ops k = some (v, ts, ttl) ∧ ts ≤ now ∧ (if se then now ≤ ts + ttl else now < ts + ttl) :=
  Oidc.Cache.get_sound se cap ops t0 now k v hm h

/-- entries stored with a non-positive lifetime are never observable (comparison `now ≥ exp`) -/
theorem nonpositive_invisible (cap : Nat) (ops : List Op) (t0 now : Int) (k : String) (v : Nat)
    (hm : Mono t0 ops now) (h : (get false (run false (init cap) ops) now k).2 = some v) :
    ∃ ts ttl, spec ops k = some (v, ts, ttl) ∧ 0 < ttl :=
  Oidc.Cache.nonpositive_invisible cap ops t0 now k v hm h

/-- Cleanup removes exactly the expired entries … -/
theorem cleanup_removes_only_expired (se : Bool) (c : C) (tc : Int) (e : Entry) :
    e ∈ (cleanup se c tc).order ↔ e ∈ c.order ∧ expired se tc e = false :=
  Oidc.Cache.cleanup_removes_only_expired se c tc e

/-- … and is invisible to every later lookup -/
theorem cleanup_transparent (se : Bool) (cap : Nat) (hc : 0 < cap) (ops : List Op) (tc now : Int) (k : String)
    (h : tc ≤ now) :
    (get se (cleanup se (run se (init cap) ops) tc) now k).2 = (get se (run se (init cap) ops) now k).2 :=
  Oidc.Cache.cleanup_transparent se _ tc now k
    (inv_run se (init cap) ops hc ⟨by simp [init, NoDup], by simp [init]⟩).1.1 h

/-- a live entry is observable as long as capacity is not exceeded -/
theorem get_complete (se : Bool) (cap : Nat) (hc : 0 < cap) (ops : List Op) (t0 now : Int) (k : String)
    (v : Nat) (ts ttl : Int) (hm : Mono t0 ops now) (hne : NoEvict se (init cap) ops)
    (hs : spec ops k = some (v, ts, ttl)) (hlive : expiredAt se now (ts + ttl) = false) :
    (get se (run se (init cap) ops) now k).2 = some v :=
  Oidc.Cache.get_complete se cap hc ops t0 now k v ts ttl hm hne hs hlive

/-- … at full strength: it suffices that the *live* entries fit — a `Set` of a new key into a full cache is harmless as long
    as an entry whose lifetime has elapsed is stored (its slot is the one reclaimed) -/
theorem get_complete_live (se : Bool) (cap : Nat) (hc : 0 < cap) (ops : List Op) (t0 now : Int) (k : String)
    (v : Nat) (ts ttl : Int) (hm : Mono t0 ops now) (hne : NoLiveEvict se (init cap) ops)
    (hs : spec ops k = some (v, ts, ttl)) (hlive : expiredAt se now (ts + ttl) = false) :
    (get se (run se (init cap) ops) now k).2 = some v :=
  Oidc.Cache.get_complete_live se cap hc ops t0 now k v ts ttl hm hne hs hlive

/-! ## the regenerated obligation and the statements for the code as it is now -/

/-- obligation against the regenerated facts: cache.go compares with `!now.Before(ExpiresAt)` in Get, Cleanup and the
    eviction scan, the "10 %" disjunct of Cleanup is dead, capacity ≥ 1 -/
theorem facts_ok : Oidc.Facts.GoodCache := by decide

/-- the model parameter the driver runs with is the non-strict comparison -/
theorem current_se : Oidc.Current.se = false := by decide

/-- for the current code: a hit returns the latest stored, undeleted value and its lifetime has *not* elapsed (`now < exp`) -/
theorem get_sound_current (cap : Nat) (ops : List Op) (t0 now : Int) (k : String) (v : Nat)
    (hm : Mono t0 ops now) (h : (get Oidc.Current.se (run Oidc.Current.se (init cap) ops) now k).2 = some v) :
    ∃ ts ttl, spec ops k = some (v, ts, ttl) ∧ ts ≤ now ∧ now < ts + ttl := by
  rw [current_se] at h
  have := get_sound false cap ops t0 now k v hm h
  simpa using this

/-- for the current code: entries stored with a non-positive lifetime are never observable -/
theorem nonpositive_invisible_current (cap : Nat) (ops : List Op) (t0 now : Int) (k : String) (v : Nat)
    (hm : Mono t0 ops now) (h : (get Oidc.Current.se (run Oidc.Current.se (init cap) ops) now k).2 = some v) :
    ∃ ts ttl, spec ops k = some (v, ts, ttl) ∧ 0 < ttl := by
  rw [current_se] at h
  exact nonpositive_invisible cap ops t0 now k v hm h

/-! non-vacuity: a concrete history with overwrite, delete, expiry and cleanup -/
def exOps : List Op := [.set 0 "a" 1 10, .set 1 "b" 2 5, .set 2 "a" 3 10, .del "b", .clean 3, .get 4 "a"]
example : Mono 0 exOps 5 := by simp [exOps, Mono, Op.time]
example : NoEvict false (init 2) exOps := by
  simp only [exOps, NoEvict]
  refine ⟨?_, ?_, ?_, ?_, ?_, ?_, ?_⟩ <;> first | trivial | decide
example : spec exOps "a" = some (3, 2, 10) := by decide
example : (get false (run false (init 2) exOps) 5 "a").2 = some 3 := by decide
example : (get false (run false (init 2) exOps) 5 "b").2 = none := by decide

/-! non-vacuity of the live-capacity form: capacity 2, "a" has expired when "c" arrives at a full cache; "b" stays observable -/
def exOps2 : List Op := [.set 0 "a" 1 1, .set 0 "b" 2 100, .set 5 "c" 3 100]
example : NoLiveEvict false (init 2) exOps2 := by
  simp only [exOps2, NoLiveEvict]
  refine ⟨?_, ?_, ?_, trivial⟩ <;> decide
example : ¬ NoEvict false (init 2) exOps2 := by
  simp only [exOps2, NoEvict]
  decide
example : (get false (run false (init 2) exOps2) 6 "b").2 = some 2 := by decide

/-! obligations against the regenerated program text: the six methods of cache.go read, statement for statement, as they did
    when the three-structure model `Oidc.CacheImpl` was written after them (`Oidc/Shapes.lean`) -/
theorem text_Cache_Set_ok : Oidc.Shapes.Text_Cache_Set := by unfold Oidc.Shapes.Text_Cache_Set; rfl
theorem text_Cache_Get_ok : Oidc.Shapes.Text_Cache_Get := by unfold Oidc.Shapes.Text_Cache_Get; rfl
theorem text_Cache_Delete_ok : Oidc.Shapes.Text_Cache_Delete := by unfold Oidc.Shapes.Text_Cache_Delete; rfl
theorem text_Cache_Cleanup_ok : Oidc.Shapes.Text_Cache_Cleanup := by unfold Oidc.Shapes.Text_Cache_Cleanup; rfl
theorem text_Cache_evictOldest_ok : Oidc.Shapes.Text_Cache_evictOldest := by unfold Oidc.Shapes.Text_Cache_evictOldest; rfl
theorem text_Cache_removeItem_ok : Oidc.Shapes.Text_Cache_removeItem := by unfold Oidc.Shapes.Text_Cache_removeItem; rfl


/-! ## Program text of the helpers these theorems also rest on (constructors, accessors, token endpoint, configuration) -/
theorem text_NewCache_ok : Oidc.Shapes.Text_NewCache := by unfold Oidc.Shapes.Text_NewCache; rfl
theorem text_Cache_Close_ok : Oidc.Shapes.Text_Cache_Close := by unfold Oidc.Shapes.Text_Cache_Close; rfl
theorem text_Cache_startAutoCleanup_ok : Oidc.Shapes.Text_Cache_startAutoCleanup := by unfold Oidc.Shapes.Text_Cache_startAutoCleanup; rfl
theorem text_autoCleanupRoutine_ok : Oidc.Shapes.Text_autoCleanupRoutine := by unfold Oidc.Shapes.Text_autoCleanupRoutine; rfl

/-! ## The same statements about the code itself: the functions below are `Oidc.Generated.Code`, which `tools/go2lean` translates
    from /repo's source, statement by statement, on every run (meaning of the Go constructs: `Oidc/GoLib.lean`) -/
open Oidc.Generated Oidc.CodeRefine in
/-- cache.go as translated — `Set`, `Get`, `Delete`, `Cleanup` with `evictOldest` and `removeItem` on the three structures — after
    any history from `NewCache()`: a hit of the translated `Get` returns the value of the most recent store of that key, not deleted
    since, lifetime not elapsed (values seen through any `enc`; take it injective to read "the exact value") -/
theorem code_get_sound (enc : Go.Any → Nat) (n : Int) (hn : 0 ≤ n) (ops : List COp) (t0 now : Int) (k : Go.Str) (v : Go.Any)
    (hm : Mono t0 (ops.map (COp.abs enc)) now)
    (h : (Code.Cache_Get now (ops.foldl codeStep ⟨[], [], [], n⟩) k).1 = (v, true)) :
    ∃ ts ttl, spec (ops.map (COp.abs enc)) (String.ofList k) = some (enc v, ts, ttl) ∧ ts ≤ now ∧ now < ts + ttl := by
  have hg := code_get_history enc n hn ops now k
  simp only [h, if_true] at hg
  have := get_sound false n.toNat (ops.map (COp.abs enc)) t0 now (String.ofList k) (enc v) hm hg.symm
  simpa using this

open Oidc.Generated Oidc.CodeRefine in
/-- … and an entry stored with a non-positive lifetime is never returned by the translated `Get` -/
theorem code_nonpositive_invisible (enc : Go.Any → Nat) (n : Int) (hn : 0 ≤ n) (ops : List COp) (t0 now : Int) (k : Go.Str) (v : Go.Any)
    (hm : Mono t0 (ops.map (COp.abs enc)) now)
    (h : (Code.Cache_Get now (ops.foldl codeStep ⟨[], [], [], n⟩) k).1 = (v, true)) :
    ∃ ts ttl, spec (ops.map (COp.abs enc)) (String.ofList k) = some (enc v, ts, ttl) ∧ 0 < ttl := by
  have hg := code_get_history enc n hn ops now k
  simp only [h, if_true] at hg
  exact nonpositive_invisible n.toNat (ops.map (COp.abs enc)) t0 now (String.ofList k) (enc v) hm hg.symm

open Oidc.Generated Oidc.CodeRefine in
/-- the translated `Cleanup` is the model's: it removes exactly the entries whose lifetime has elapsed (the "within 10 %" disjunct of
    its condition never holds for a live entry: `cleanupCond`) -/
theorem code_Cleanup (enc : Go.Any → Nat) (now : Int) (c : Go.CacheS) (h : CInv enc c) :
    absC enc (Code.Cache_Cleanup now c) = Oidc.CacheImpl.cleanup false (absC enc c) now :=
  (Cleanup_refines enc now c h).1

open Oidc.Generated Oidc.CodeRefine in
/-- helpers.go `TokenCache.Set` / `Get` / `Delete` as translated, over the translated cache.go: the wrapper is a cache keyed by
    the token string itself.  Each of its operations is the abstract cache's operation under that very key (the "t-" prefix is an
    injective renaming: two different token strings never share an entry, and a hit is a hit of the abstract cache for exactly
    the string asked for), and the invariant that makes this so is kept. -/
theorem code_TokenCache_is_a_cache (enc : Go.Any → Nat) (now : Int) (w : W) (k : Go.Str) (h : WInv enc w) :
    (WInv enc (tcGet now w k).2 ∧
      (absW enc (tcGet now w k).2).tc = (Cache.get false (absW enc w).tc now (String.ofList k)).1 ∧
      (tcGet now w k).1.2 = (Cache.get false (absW enc w).tc now (String.ofList k)).2.isSome) ∧
    (∀ (c : Go.Obj) (d : Int), WInv enc (tcSet now w k c d) ∧
      (absW enc (tcSet now w k c d)).tc = Cache.set false (absW enc w).tc now (String.ofList k) (enc (Go.Any.obj c)) d) ∧
    (WInv enc (tcDel w k) ∧ (absW enc (tcDel w k)).tc = Cache.delete (absW enc w).tc (String.ofList k)) :=
  ⟨tcGet_spec enc now w k h, fun c d => tcSet_spec enc now w k c d h, tcDel_spec enc w k h⟩

/-- the renaming is injective (what "never share an entry" rests on) -/
theorem code_TokenCache_key_injective (a b : String) (h : Oidc.CodeRefine.tkey a = Oidc.CodeRefine.tkey b) : a = b :=
  Oidc.CodeRefine.tkey_inj a b h

/-- the token cache's clean-up is the clean-up of the cache inside it (translated from helpers.go): everything proved about
    `Cache.Cleanup` — it removes exactly the expired entries — holds for it -/
theorem code_TokenCache_Cleanup (now : Go.Time) (tc : Go.CacheS) :
    Oidc.Generated.Code.TokenCache_Cleanup now tc = Oidc.Generated.Code.Cache_Cleanup now tc := rfl

end Oidc.Props.C12
