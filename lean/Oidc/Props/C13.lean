import Oidc.Proofs.CodeCache
import Oidc.Shapes
import Oidc.Proofs.CacheLru
import Oidc.Proofs.CacheImpl
import Oidc.Facts
/-! # C13 — capacity, eviction order, atomic operations (property theorems only) -/
namespace Oidc.Props.C13
open Oidc.Cache

/-- the cache never holds more entries than its capacity, and never two entries for one key -/
theorem size_le_cap (se : Bool) (cap : Nat) (hc : 0 < cap) (ops : List Op) :
    (run se (init cap) ops).order.length ≤ cap ∧ NoDup (run se (init cap) ops).order := by
  have := inv_run se (init cap) ops hc ⟨by simp [init, NoDup], by simp [init]⟩
  exact ⟨by have h := this.1.2; rw [this.2] at h; exact h, this.1.1⟩

/-- inserting a new key into a full cache removes exactly one entry: expired first, else the LRU front -/
theorem evict_exactly_one (se : Bool) (now : Int) (l : List Entry) (hnd : NoDup l) (hne : l ≠ []) :
    (evict se now l).length + 1 = l.length ∧ (evict se now l).Sublist l ∧
    ((∃ e, l.find? (expired se now) = some e ∧ evict se now l = remove l e.key) ∨
     (l.find? (expired se now) = none ∧ evict se now l = l.tail)) :=
  Oidc.Cache.evict_exactly_one se now l hnd hne

/-- an unexpired entry is not the victim while an expired one exists -/
theorem live_survives_if_expired_exists (se : Bool) (now : Int) (l : List Entry) (hnd : NoDup l) (e x : Entry)
    (hf : l.find? (expired se now) = some x) (he : e ∈ l) (hlive : expired se now e = false) :
    e ∈ evict se now l :=
  Oidc.Cache.evict_keeps_live_if_expired_exists se now l hnd e x hf he hlive

/-- LRU survival (see `Oidc.Cache.lru_loss`) -/
theorem lru_loss (se : Bool) (cap : Nat) (hc : 0 < cap) (ops : List Op) (now : Int) (x : String) (v : Nat) (ttl : Int)
    (e : Entry) (he : e ∈ (run se (init cap) ops).order) (hx : x ≠ e.key)
    (hlost : ∀ a ∈ (set se (run se (init cap) ops) now x v ttl).order, a.key ≠ e.key)
    (hnoexp : (run se (init cap) ops).order.find? (expired se now) = none) :
    ∃ used : List String, used.Nodup ∧ (∀ u ∈ used, u ≠ e.key) ∧ cap ≤ used.length ∧
      ∀ u ∈ used, u ∈ sinceOf e.key (useLog se (init cap) (ops ++ [.set now x v ttl])) :=
  Oidc.Cache.lru_loss se cap hc ops now x v ttl e he hx hlost hnoexp

/-! ## the three structures of cache.go (`items`, `order`, `elems`)

`Oidc.CacheImpl` models `Set`/`Get`/`Delete`/`Cleanup`/`evictOldest`/`removeItem` statement by statement on the item map, the
LRU list of keys and the element map; it is the model the correspondence runs execute (the driver predicts the contents of all
three structures, the harness reads them through the snapshot hook).  The statements above are about the abstract list
`Oidc.Cache`; the simulation below carries them over. -/

/-- **simulation.** after any history the three structures represent (`R`) the abstract cache after the same history, and a
    lookup returns the same answer -/
theorem impl_refines (se : Bool) (cap : Nat) (ops : List Op) (now : Int) (k : String) :
    Oidc.CacheImpl.R (Oidc.CacheImpl.run se (Oidc.CacheImpl.init cap) ops) (run se (init cap) ops) ∧
    (Oidc.CacheImpl.get se (Oidc.CacheImpl.run se (Oidc.CacheImpl.init cap) ops) now k).2 = (get se (run se (init cap) ops) now k).2 :=
  ⟨Oidc.CacheImpl.R_run se cap ops, Oidc.CacheImpl.get_refines se cap ops now k⟩

/-- **internal consistency.** after any history: no key twice in the LRU list, in the element map or in the item map; the three
    hold exactly the same keys and have the same size, at most the capacity -/
theorem three_structures_consistent (se : Bool) (cap : Nat) (hc : 0 < cap) (ops : List Op) :
    let c := Oidc.CacheImpl.run se (Oidc.CacheImpl.init cap) ops
    c.order.Nodup ∧ c.elems.Nodup ∧ NoDup c.items ∧
    (∀ k, k ∈ c.elems ↔ k ∈ c.order) ∧ (∀ k, k ∈ c.order ↔ lookup c.items k ≠ none) ∧
    c.items.length = c.order.length ∧ c.order.length ≤ cap :=
  Oidc.CacheImpl.consistent se cap hc ops

/-- whole operations are atomic (one mutex held throughout — regenerated lock-discipline fact), so every
    concurrent execution of per-goroutine operation lists is *some* interleaving, i.e. some history; all
    statements above, quantified over all histories, therefore hold for it -/
theorem interleaving_is_history (se : Bool) (cap : Nat) (hc : 0 < cap) (threads : List (List Op)) (h : List Op)
    (_hperm : h.Perm threads.flatten) :
    (run se (init cap) h).order.length ≤ cap ∧ NoDup (run se (init cap) h).order :=
  size_le_cap se cap hc h

/-- obligations against the regenerated facts: comparison shapes / capacity (shared with C12) and the lock discipline
    that justifies whole-operation atomicity -/
theorem facts_ok : Oidc.Facts.GoodCache := by decide
theorem locks_ok : Oidc.Facts.GoodCacheLocks := by decide

/-- for the production capacity read from cache.go -/
theorem size_le_cap_current (ops : List Op) :
    (run Oidc.Current.se (init Oidc.Current.cacheCap) ops).order.length ≤ Oidc.Current.cacheCap :=
  (size_le_cap _ _ facts_ok.2.2.2.2.2.2 ops).1

example : (run false (init 2) [.set 0 "a" 1 100, .set 1 "b" 2 100, .get 2 "a", .set 3 "c" 3 100]).order.map (·.key)
    = ["a", "c"] := by decide

example : (Oidc.CacheImpl.run false (Oidc.CacheImpl.init 2) [.set 0 "a" 1 100, .set 1 "b" 2 100, .get 2 "a", .set 3 "c" 3 100]).order
    = ["a", "c"] := by decide

/-! obligations against the regenerated program text: the six methods of cache.go read, statement for statement, as they did
    when the three-structure model `Oidc.CacheImpl` was written after them (`Oidc/Shapes.lean`) -/
theorem text_Cache_Set_ok : Oidc.Shapes.Text_Cache_Set := by unfold Oidc.Shapes.Text_Cache_Set; rfl
theorem text_Cache_Get_ok : Oidc.Shapes.Text_Cache_Get := by unfold Oidc.Shapes.Text_Cache_Get; rfl
theorem text_Cache_Delete_ok : Oidc.Shapes.Text_Cache_Delete := by unfold Oidc.Shapes.Text_Cache_Delete; rfl
theorem text_Cache_Cleanup_ok : Oidc.Shapes.Text_Cache_Cleanup := by unfold Oidc.Shapes.Text_Cache_Cleanup; rfl
theorem text_Cache_evictOldest_ok : Oidc.Shapes.Text_Cache_evictOldest := by unfold Oidc.Shapes.Text_Cache_evictOldest; rfl
theorem text_Cache_removeItem_ok : Oidc.Shapes.Text_Cache_removeItem := by unfold Oidc.Shapes.Text_Cache_removeItem; rfl


/-! ## Program text of the helpers these theorems also rest on (constructors, accessors, token endpoint, configuration) -/
theorem text_NewCache_ok : Oidc.Shapes.Text_NewCache := by unfold Oidc.Shapes.Text_NewCache; rfl
theorem text_Cache_Close_ok : Oidc.Shapes.Text_Cache_Close := by unfold Oidc.Shapes.Text_Cache_Close; rfl
theorem text_Cache_startAutoCleanup_ok : Oidc.Shapes.Text_Cache_startAutoCleanup := by unfold Oidc.Shapes.Text_Cache_startAutoCleanup; rfl
theorem text_autoCleanupRoutine_ok : Oidc.Shapes.Text_autoCleanupRoutine := by unfold Oidc.Shapes.Text_autoCleanupRoutine; rfl

/-! ## The same statements about the code itself: the functions below are `Oidc.Generated.Code`, which `tools/go2lean` translates
    from /repo's source, statement by statement, on every run (meaning of the Go constructs: `Oidc/GoLib.lean`) -/
open Oidc.Generated Oidc.CodeRefine in
/-- cache.go as translated, after any history from `NewCache()` with capacity `n > 0`: the three structures are mutually
    consistent (same keys, no duplicates), of equal size, and hold at most `n` entries -/
theorem code_three_structures_consistent (enc : Go.Any → Nat) (n : Int) (hn : 0 < n) (ops : List COp) :
    let c := absC enc (ops.foldl codeStep ⟨[], [], [], n⟩)
    c.order.Nodup ∧ c.elems.Nodup ∧ NoDup c.items ∧ (∀ k, k ∈ c.elems ↔ k ∈ c.order) ∧
    c.items.length = c.order.length ∧ c.order.length ≤ n.toNat := by
  intro c
  have h1 : c = Oidc.CacheImpl.run false (Oidc.CacheImpl.init n.toNat) (ops.map (COp.abs enc)) :=
    (code_history enc n (Int.le_of_lt hn) ops).1
  have hc := Oidc.CacheImpl.consistent false n.toNat (by omega) (ops.map (COp.abs enc))
  simp only [] at hc
  rw [h1]
  exact ⟨hc.1, hc.2.1, hc.2.2.1, hc.2.2.2.1, hc.2.2.2.2.2.1, hc.2.2.2.2.2.2⟩

open Oidc.Generated Oidc.CodeRefine in
/-- each exported operation of the translated cache is the model's step (`Set` with its eviction scan, `Get` with its move to the
    back, `Delete`, `Cleanup`), and `Set` always terminates -/
theorem code_step (enc : Go.Any → Nat) (c : Go.CacheS) (op : COp) (h : CInv enc c) :
    absC enc (codeStep c op) = Oidc.CacheImpl.step false (absC enc c) (op.abs enc) ∧ CInv enc (codeStep c op) :=
  codeStep_refines enc c op h

open Oidc.Generated Oidc.CodeRefine in
theorem code_Set_terminates (enc : Go.Any → Nat) (now : Int) (c : Go.CacheS) (k : Go.Str) (v : Go.Any) (d : Int) (h : CInv enc c) :
    (Code.Cache_Set (c.order.length + 1) now c k v d).isSome = true :=
  Set_terminates enc now c k v d h

open Oidc.Generated Oidc.CodeRefine in
/-- the eviction scan of the translated code is the model's `evictOldest`: first expired entry in list order, else the front -/
theorem code_evictOldest (enc : Go.Any → Nat) (now : Int) (c : Go.CacheS) (h : CInv enc c) :
    ∃ c', Code.Cache_evictOldest (c.order.length + 1) now c = some c' ∧
      absC enc c' = Oidc.CacheImpl.evictOldest false now (absC enc c) := by
  obtain ⟨c', h1, h2, _⟩ := evictOldest_refines enc now c h (c.order.length + 1) (Nat.lt_succ_self _)
  exact ⟨c', h1, h2⟩

end Oidc.Props.C13
