import Oidc.Proofs.CodeVerify
import Oidc.Proofs.CodeCompose
import Oidc.Shapes
import Oidc.Proofs.VerifyRevoke
import Oidc.Facts
/-! # C14 — caching a verification result never changes the verdict (property theorems only)

`VerifyToken` / `RevokeToken` as a state machine over token cache × revocation list × limiter (`Oidc.Verify`).
`T.scratch id now` is the verdict of a from-scratch verification (C02); `hint` is the interval property proved for the
verifier in `Oidc.Jwt.accept_interval` (C02). -/
namespace Oidc.Props.C14
open Oidc Oidc.Verify

/-- along every history of verify / revoke / clean-up steps with a non-decreasing clock, from the empty caches, a token is
    reported valid only if a from-scratch verification at that instant accepts it -/
theorem history_valid_implies_scratch (F : Facts) (T : TokOf)
    (hint : ∀ id a n, T.scratch id a = true → a ≤ n → n ≤ T.exp id → T.scratch id n = true)
    (ops : List Op) (capT capB : Nat) (lim : Limiter.L) (t0 : Int) (hm : Mono t0 ops) :
    ∀ now id, (Op.verify now id, some true) ∈ answers F T ⟨Cache.init capT, Cache.init capB, lim⟩ ops → T.scratch id now = true :=
  Oidc.Verify.history_valid_implies_scratch F T hint ops _ t0 (empty_tcInv T capT t0) hm

/-- one step, any reachable state: valid ⇒ scratch accepts now; and an accept served from the cache never outlives the
    token's own expiry -/
theorem valid_implies_scratch (F : Facts) (T : TokOf) (v : V) (now : Int) (id : String) (last : Int) (hl : last ≤ now)
    (hint : ∀ id a n, T.scratch id a = true → a ≤ n → n ≤ T.exp id → T.scratch id n = true)
    (h : TcInv T v.tc last) (hok : (verify F T v now id).2 = true) :
    T.scratch id now = true ∧ ((Cache.get F.se v.tc now id).2.isSome = true → now ≤ T.exp id) :=
  Oidc.Verify.valid_implies_scratch F T v now id last hl hint h hok

/-- a token that failed verification is never cached as valid: a negative answer adds nothing to the token cache -/
theorem failed_never_cached (F : Facts) (T : TokOf) (v : V) (now : Int) (id : String)
    (hfail : (verify F T v now id).2 = false) :
    ∀ e ∈ (verify F T v now id).1.tc.order, e ∈ v.tc.order :=
  Oidc.Verify.failed_never_cached F T v now id hfail

/-- revoking takes effect on the very next verification, from any state, for the whole listing period -/
theorem revoke_immediate (F : Facts) (T : TokOf) (v : V) (tr now : Int) (id : String)
    (h2 : now < tr + revTTL F T tr id) :
    (verify F T (revoke F T v tr id) now id).2 = false :=
  Oidc.Verify.revoke_immediate F T v tr now id h2

/-- the listing period covers the default 24 h and the whole time a from-scratch verification could still accept -/
theorem revTTL_covers (F : Facts) (T : TokOf) (tr : Int) (id : String) (h : F.revokeUntilExp = true) :
    T.exp id + F.skew ≤ tr + revTTL F T tr id ∧ tr + F.blTTL ≤ tr + revTTL F T tr id :=
  Oidc.Verify.revTTL_covers F T tr id h

/-- revocation over histories: after `RevokeToken id` at `tr`, along every history with a non-decreasing clock in which the
    revocation list never has to evict (the property's "within the capacity of the revocation list") and no token's `jti` equals
    the raw token `id` (both kinds of key share the list), `VerifyToken id` is never answered positively before the end of the
    listing period — which `revTTL_covers` shows to reach at least to the instant after which a from-scratch verification
    rejects the token anyway -/
theorem revoked_stays_rejected (F : Facts) (T : TokOf) (id : String) (tr : Int) (hjti : ∀ x, T.jti x ≠ some id)
    (ops : List Op) (v : V) (hm : Mono tr ops) (hroom : RoomAlong F T (revoke F T v tr id) ops) :
    ∀ now, (Op.verify now id, some true) ∈ answers F T (revoke F T v tr id) ops → tr + revTTL F T tr id ≤ now :=
  Oidc.Verify.revoked_stays_rejected F T id tr hjti ops v hm hroom

/-- obligation against the regenerated facts -/
theorem facts_ok : Oidc.Facts.GoodVerify := by decide

/-! non-vacuity: verify, revoke, verify on a concrete token -/
def exT : TokOf := { exp := fun _ => 1000, jti := fun _ => none, scratch := fun _ now => decide (now ≤ 1120) }
def exF : Facts := { se := false, r := 10, b := 10 * Limiter.U, blTTL := 500, skew := 120, revokeUntilExp := true }
def exV : V := ⟨Cache.init 4, Cache.init 4, Limiter.init 10⟩
example : (verify exF exT exV 5 "t").2 = true := by decide
example : (verify exF exT (revoke exF exT (verify exF exT exV 5 "t").1 6 "t") 7 "t").2 = false := by decide
example : (verify exF exT (revoke exF exT (verify exF exT exV 5 "t").1 6 "t") 1100 "t").2 = false := by decide
example : RoomAlong exF exT (revoke exF exT exV 6 "t") [.verify 7 "t", .verify 8 "u", .tick 9, .verify 1100 "t"] := by
  simp only [RoomAlong]
  refine ⟨?_, ?_, ?_, ?_, trivial⟩ <;> decide

/-! obligations against the regenerated program text: the functions these theorems rest on read, statement for statement, as
    they did when the model was written after them (`Oidc/Shapes.lean`) -/
theorem text_TraefikOidc_VerifyToken_ok : Oidc.Shapes.Text_TraefikOidc_VerifyToken := by unfold Oidc.Shapes.Text_TraefikOidc_VerifyToken; rfl
theorem text_TraefikOidc_performPreVerificationChecks_ok : Oidc.Shapes.Text_TraefikOidc_performPreVerificationChecks := by unfold Oidc.Shapes.Text_TraefikOidc_performPreVerificationChecks; rfl
theorem text_TraefikOidc_RevokeToken_ok : Oidc.Shapes.Text_TraefikOidc_RevokeToken := by unfold Oidc.Shapes.Text_TraefikOidc_RevokeToken; rfl
theorem text_TokenCache_Set_ok : Oidc.Shapes.Text_TokenCache_Set := by unfold Oidc.Shapes.Text_TokenCache_Set; rfl
theorem text_TokenCache_Get_ok : Oidc.Shapes.Text_TokenCache_Get := by unfold Oidc.Shapes.Text_TokenCache_Get; rfl
theorem text_TokenCache_Delete_ok : Oidc.Shapes.Text_TokenCache_Delete := by unfold Oidc.Shapes.Text_TokenCache_Delete; rfl
theorem text_TokenCache_Cleanup_ok : Oidc.Shapes.Text_TokenCache_Cleanup := by unfold Oidc.Shapes.Text_TokenCache_Cleanup; rfl
theorem text_extractClaims_ok : Oidc.Shapes.Text_extractClaims := by unfold Oidc.Shapes.Text_extractClaims; rfl

/-! further obligations against the regenerated program text (`Oidc/Shapes.lean`): constructor wiring and URL builders -/
theorem text_TraefikOidc_cacheVerifiedToken_ok : Oidc.Shapes.Text_TraefikOidc_cacheVerifiedToken := by unfold Oidc.Shapes.Text_TraefikOidc_cacheVerifiedToken; rfl
theorem text_New_ok : Oidc.Shapes.Text_New := by unfold Oidc.Shapes.Text_New; rfl

/-! the token cache and the revocation list are instances of cache.go: its methods read as when `Oidc.Cache` was written -/
theorem text_Cache_Set_ok : Oidc.Shapes.Text_Cache_Set := by unfold Oidc.Shapes.Text_Cache_Set; rfl
theorem text_Cache_Get_ok : Oidc.Shapes.Text_Cache_Get := by unfold Oidc.Shapes.Text_Cache_Get; rfl
theorem text_Cache_Delete_ok : Oidc.Shapes.Text_Cache_Delete := by unfold Oidc.Shapes.Text_Cache_Delete; rfl
theorem text_Cache_Cleanup_ok : Oidc.Shapes.Text_Cache_Cleanup := by unfold Oidc.Shapes.Text_Cache_Cleanup; rfl
theorem text_Cache_evictOldest_ok : Oidc.Shapes.Text_Cache_evictOldest := by unfold Oidc.Shapes.Text_Cache_evictOldest; rfl
theorem text_Cache_removeItem_ok : Oidc.Shapes.Text_Cache_removeItem := by unfold Oidc.Shapes.Text_Cache_removeItem; rfl


/-! ## Program text of the helpers these theorems also rest on (constructors, accessors, token endpoint, configuration) -/
theorem text_NewTokenCache_ok : Oidc.Shapes.Text_NewTokenCache := by unfold Oidc.Shapes.Text_NewTokenCache; rfl
theorem text_cleanupReplayCache_ok : Oidc.Shapes.Text_cleanupReplayCache := by unfold Oidc.Shapes.Text_cleanupReplayCache; rfl
theorem text_TraefikOidc_startTokenCleanup_ok : Oidc.Shapes.Text_TraefikOidc_startTokenCleanup := by unfold Oidc.Shapes.Text_TraefikOidc_startTokenCleanup; rfl
theorem text_TraefikOidc_RevokeTokenWithProvider_ok : Oidc.Shapes.Text_TraefikOidc_RevokeTokenWithProvider := by unfold Oidc.Shapes.Text_TraefikOidc_RevokeTokenWithProvider; rfl

/-! ## The same statements about the code itself: the functions below are `Oidc.Generated.Code`, which `tools/go2lean` translates
    from /repo's source, statement by statement, on every run (meaning of the Go constructs: `Oidc/GoLib.lean`) -/
open Oidc.Generated Oidc.CodeRefine in
/-- main.go `VerifyToken` (with `performPreVerificationChecks` and `cacheVerifiedToken`) as translated, run over any
    implementation of the two caches and the limiter that behaves, through `abs`, like the model's (`OpsSpec`), takes the
    model's step: same verdict, same state -/
theorem code_VerifyToken {σ : Type} (ops : Go.VOps σ) (abs : σ → V) (F : Facts) (S : OpsSpec ops abs F)
    (now : Int) (t : Go.Inst) (tok : Go.Str) (w : σ)
    (hF : F.blTTL = Code.defaultBlacklistDuration)
    (hAgree : (t.parseJWT tok).2 = none → t.extractClaims tok = ((t.parseJWT tok).1.Claims, none))
    (hne : (ops.tokenCacheGet w now tok).1.2 = true → (ops.tokenCacheGet w now tok).1.1 ≠ []) :
    abs (Code.TraefikOidc_VerifyToken ops now t tok w).2 = (verify F (codeTok t) (abs w) now (String.ofList tok)).1 ∧
    (Code.TraefikOidc_VerifyToken ops now t tok w).1.isNone = (verify F (codeTok t) (abs w) now (String.ofList tok)).2 :=
  VerifyToken_refines ops abs F S now t tok w hF hAgree hne

open Oidc.Generated Oidc.CodeRefine in
/-- main.go `RevokeToken` as translated takes the model's step -/
theorem code_RevokeToken {σ : Type} (ops : Go.VOps σ) (abs : σ → V) (F : Facts) (S : OpsSpec ops abs F)
    (now : Int) (t : Go.Inst) (tok : Go.Str) (w : σ)
    (hF : F.blTTL = 24 * Go.Hour) (hS : F.skew = Code.ClockSkewToleranceFuture) (hR : F.revokeUntilExp = true)
    (claims : Go.Obj) (hc : t.extractClaims tok = (claims, none)) (hx : (Go.asF64 (Go.mapGet claims ['e','x','p'])).2 = true) :
    abs (Code.TraefikOidc_RevokeToken ops now t tok w) = revoke F (codeTok t) (abs w) now (String.ofList tok) :=
  RevokeToken_refines ops abs F S now t tok w hF hS hR claims hc hx

open Oidc.Generated Oidc.CodeRefine in
/-- hence, for the code: `RevokeToken` followed by `VerifyToken` of the same token — at once or at any instant of the listing
    period — is refused, from any state of the caches and the limiter -/
theorem code_revoke_immediate {σ : Type} (ops : Go.VOps σ) (abs : σ → V) (F : Facts) (S : OpsSpec ops abs F)
    (tr now : Int) (t : Go.Inst) (tok : Go.Str) (w : σ)
    (hF : F.blTTL = 24 * Go.Hour) (hS : F.skew = Code.ClockSkewToleranceFuture) (hR : F.revokeUntilExp = true)
    (hAgree : (t.parseJWT tok).2 = none → t.extractClaims tok = ((t.parseJWT tok).1.Claims, none))
    (claims : Go.Obj) (hc : t.extractClaims tok = (claims, none)) (hx : (Go.asF64 (Go.mapGet claims ['e','x','p'])).2 = true)
    (hne : (ops.tokenCacheGet (Code.TraefikOidc_RevokeToken ops tr t tok w) now tok).1.2 = true →
      (ops.tokenCacheGet (Code.TraefikOidc_RevokeToken ops tr t tok w) now tok).1.1 ≠ [])
    (h2 : now < tr + revTTL F (codeTok t) tr (String.ofList tok)) :
    (Code.TraefikOidc_VerifyToken ops now t tok (Code.TraefikOidc_RevokeToken ops tr t tok w)).1.isSome = true := by
  have hv := (VerifyToken_refines ops abs F S now t tok (Code.TraefikOidc_RevokeToken ops tr t tok w)
    (by rw [hF, default_is_24h]) hAgree hne).2
  rw [RevokeToken_refines ops abs F S tr t tok w hF hS hR claims hc hx] at hv
  rw [revoke_immediate F (codeTok t) (abs w) tr now (String.ofList tok) h2] at hv
  cases h : (Code.TraefikOidc_VerifyToken ops now t tok (Code.TraefikOidc_RevokeToken ops tr t tok w)).1 <;> simp [h] at hv ⊢

open Oidc.Generated Oidc.CodeRefine in
/-- and an accept by the code implies a from-scratch acceptance at that instant (`parseJWT` succeeds and the translated
    `VerifyJWTSignatureAndClaims` returns nil), from any state whose token cache holds only verified, unexpired tokens -/
theorem code_valid_implies_scratch {σ : Type} (ops : Go.VOps σ) (abs : σ → V) (F : Facts) (S : OpsSpec ops abs F)
    (now last : Int) (hl : last ≤ now) (t : Go.Inst) (tok : Go.Str) (w : σ)
    (hF : F.blTTL = Code.defaultBlacklistDuration)
    (hAgree : (t.parseJWT tok).2 = none → t.extractClaims tok = ((t.parseJWT tok).1.Claims, none))
    (hint : ∀ id a n, (codeTok t).scratch id a = true → a ≤ n → n ≤ (codeTok t).exp id → (codeTok t).scratch id n = true)
    (hinv : TcInv (codeTok t) (abs w).tc last)
    (hne : (ops.tokenCacheGet w now tok).1.2 = true → (ops.tokenCacheGet w now tok).1.1 ≠ [])
    (hok : (Code.TraefikOidc_VerifyToken ops now t tok w).1 = none) :
    (t.parseJWT tok).2 = none ∧ Code.TraefikOidc_VerifyJWTSignatureAndClaims now t (t.parseJWT tok).1 tok = none := by
  have hv := (VerifyToken_refines ops abs F S now t tok w hF hAgree hne).2
  rw [hok] at hv
  have := (valid_implies_scratch F (codeTok t) (abs w) now (String.ofList tok) last hl hint hinv hv.symm).1
  simp only [codeTok, String.toList_ofList, Bool.and_eq_true, Option.isNone_iff_eq_none] at this
  exact this

open Oidc.Generated Oidc.CodeRefine in
/-- **end to end on the translated code.**  `VerifyToken` / `RevokeToken` of main.go running on cache.go (token cache through the
    `TokenCache` wrapper, revocation list, capacity `n`), all as translated from the source, with a limiter that behaves like the
    model's token bucket: along every history from freshly made caches the answers are those of `Oidc.Verify` -/
theorem code_answers_are_model_answers (F : Facts) (hse : F.se = false) (hF : F.blTTL = 24 * Go.Hour)
    (hS : F.skew = Code.ClockSkewToleranceFuture) (hR : F.revokeUntilExp = true) (t : Go.Inst) (ops : List VOp) (hi : InstOk t ops)
    (n : Int) (hn : 0 ≤ n) (lim : Limiter.L) :
    (codeAnswers F t (freshW n hn lim) ops).map (fun p => (p.1.abs, p.2)) =
      answers F (codeTok t) ⟨Cache.init n.toNat, Cache.init n.toNat, lim⟩ (ops.map VOp.abs) := by
  have := code_answers F hse hF hS hR t ops hi ops (freshW n hn lim) (fun _ h => h) (by intro p hp; cases hp)
  rw [freshW_abs] at this
  exact this

open Oidc.Generated Oidc.CodeRefine in
/-- hence, for the translated code: along every such history with a non-decreasing clock a token is reported valid only if, at
    that instant, it parses and the translated `VerifyJWTSignatureAndClaims` (C02) returns nil — whatever the caches held -/
theorem code_history_valid_implies_scratch (F : Facts) (hse : F.se = false) (hF : F.blTTL = 24 * Go.Hour)
    (hS : F.skew = Code.ClockSkewToleranceFuture) (hR : F.revokeUntilExp = true) (t : Go.Inst) (ops : List VOp) (hi : InstOk t ops)
    (n : Int) (hn : 0 ≤ n) (lim : Limiter.L) (t0 : Int) (hm : Mono t0 (ops.map VOp.abs))
    (hint : ∀ id a n, (codeTok t).scratch id a = true → a ≤ n → n ≤ (codeTok t).exp id → (codeTok t).scratch id n = true) :
    ∀ now tok, (VOp.verify now tok, some true) ∈ codeAnswers F t (freshW n hn lim) ops →
      (t.parseJWT tok).2 = none ∧ Code.TraefikOidc_VerifyJWTSignatureAndClaims now t (t.parseJWT tok).1 tok = none := by
  intro now tok hmem
  have hmap : (Op.verify now (String.ofList tok), some true) ∈
      (codeAnswers F t (freshW n hn lim) ops).map (fun p => (p.1.abs, p.2)) :=
    List.mem_map.mpr ⟨(VOp.verify now tok, some true), hmem, rfl⟩
  rw [code_answers_are_model_answers F hse hF hS hR t ops hi n hn lim] at hmap
  have := history_valid_implies_scratch F (codeTok t) hint (ops.map VOp.abs) n.toNat n.toNat lim t0 hm now (String.ofList tok) hmap
  simp only [codeTok, String.toList_ofList, Bool.and_eq_true, Option.isNone_iff_eq_none] at this
  exact this

end Oidc.Props.C14
