import Oidc.Proofs.CodeConfig
import Oidc.Proofs.CodeHandler
import Oidc.Proofs.CodeStrings
import Oidc.Shapes
import Oidc.Proofs.Strings
import Oidc.Proofs.Handler5
import Oidc.Proofs.Handler4
import Oidc.Facts
/-! # C15 — redirects never leave the application's origin except to the provider (property theorems only)

The `Resp` type enumerates every producer of a `Location`: `redirectAuth` (discovered authorization endpoint + encoded
parameters), `redirectEndSession` (discovered end-session endpoint), `redirectPostLogout` (configured URI, or the
request's own origin ++ path), `redirectLocal t` (post-login).  `r.base` is the request's own origin as the middleware
determines it (X-Forwarded-Proto/Host, else the request's scheme and Host). -/
namespace Oidc.Props.C15
open Oidc Oidc.Session Oidc.Handler Oidc.Strings

/-- for every request URI whatsoever, what initiation stores as the URI to return to is a local target
    (`/` not followed by `/` or `\`) of bounded length -/
theorem stored_path_safe (maxLen : Nat) (uri : Str) :
    isLocalTarget (sanitizeIncoming maxLen uri) = true ∧ (sanitizeIncoming maxLen uri).length ≤ max maxLen 1 :=
  ⟨sanitize_local maxLen uri, sanitize_len maxLen uri⟩

theorem initiate_stores_local (c : Cfg) (e : Env) (r : Req) (v : View) (earlier : List View) (calls : List Call) :
    ∃ v3, (initiate c e r v earlier calls).saved = earlier ++ [clearView v, v3] ∧
      isLocalTarget (getIncoming v3) = true ∧ (getIncoming v3).length ≤ max c.maxIncoming 1 :=
  Oidc.Handler.initiate_stores_local c e r v earlier calls

/-- the post-login redirect is a local target whatever the session holds (re-checked at use) -/
theorem postLoginTarget_local (c : Cfg) (v : View) : isLocalTarget (postLoginTarget c v) = true :=
  Oidc.Handler.postLoginTarget_local c v

/-- a local target without tab/CR/LF (Go's request parser rejects those) resolves, in a browser, on the origin it is
    resolved against: never scheme-relative, backslash-prefixed or absolute to another host -/
theorem local_is_same_origin (t : Str) (h : isLocalTarget t = true) (hc : ∀ c ∈ t, isTabNl c = false) :
    resolveOrigin t = .same :=
  Oidc.Strings.local_same_origin t h hc

/-- every `redirectLocal` the handler emits (it does so only at the end of a successful callback) is `postLoginTarget` -/
theorem callback_redirect_is_local (c : Cfg) (e : Env) (r : Req) (v : View) (t : Str)
    (h : (handleCallback c e r v).resp = .redirectLocal t) : isLocalTarget t = true := by
  rw [Oidc.Handler.handleCallback_redirectLocal c e r v t h]
  exact postLoginTarget_local c v

/-- logout targets: the configured post-logout URI, or a path on the request's own origin -/
theorem logout_target (c : Cfg) (r : Req) :
    postLogoutURI c r = c.postLogout ∨ postLogoutURI c r = r.base ++ ['/'] ∨ postLogoutURI c r = r.base ++ c.postLogout := by
  unfold postLogoutURI
  split
  · exact Or.inr (Or.inl rfl)
  · split
    · exact Or.inl rfl
    · exact Or.inr (Or.inr rfl)

/-- obligation against the regenerated facts: the remembered URI is capped -/
theorem facts_ok : Oidc.Facts.GoodIncoming := by decide

/-! non-vacuity -/
example : sanitizeIncoming 1024 "//evil.test/a".toList = ['/'] := by decide
example : sanitizeIncoming 1024 "/\\evil.test/a".toList = ['/'] := by decide
example : sanitizeIncoming 1024 "/ok?next=//evil.test".toList = "/ok?next=//evil.test".toList := by decide
example : resolveOrigin "//evil.test".toList = .other := by decide
example : resolveOrigin "/\\evil.test".toList = .other := by decide
example : resolveOrigin "https://evil.test".toList = .other := by decide

/-- the origin every same-origin redirect is built on (`redirect_uri`, relative post-logout URIs) is read off the request itself:
    scheme from X-Forwarded-Proto (else TLS or not), host from X-Forwarded-Host (else Host) — two requests that agree on these
    four inputs get the same origin, whatever else they carry -/
theorem origin_from_request (q q' : RawReq) (hh : q.host = q'.host) (ht : q.tls = q'.tls)
    (hp : hdrGet q.hdrs "X-Forwarded-Proto".toList = hdrGet q'.hdrs "X-Forwarded-Proto".toList)
    (hx : hdrGet q.hdrs "X-Forwarded-Host".toList = hdrGet q'.hdrs "X-Forwarded-Host".toList) :
    (digest q).base = (digest q').base := by
  show determineScheme q ++ "://".toList ++ determineHost q = determineScheme q' ++ "://".toList ++ determineHost q'
  unfold determineScheme determineHost
  rw [hh, ht, hp, hx]

/-- without forwarding headers it is `http(s)://Host` -/
theorem origin_plain (q : RawReq) (hp : hdrGet q.hdrs "X-Forwarded-Proto".toList = [])
    (hx : hdrGet q.hdrs "X-Forwarded-Host".toList = []) :
    (digest q).base = (if q.tls then "https".toList else "http".toList) ++ "://".toList ++ q.host := by
  have hs : determineScheme q = (if q.tls then "https".toList else "http".toList) := by
    unfold determineScheme; rw [if_neg (by rw [hp]; exact fun h => h rfl)]
  have hh : determineHost q = q.host := by
    unfold determineHost; rw [if_neg (by rw [hx]; exact fun h => h rfl)]
  show determineScheme q ++ "://".toList ++ determineHost q = _
  rw [hs, hh]

/-! obligations against the regenerated shapes: the functions these theorems rest on still have the steps, guards, status
    codes and literals the model was written against (`Oidc/Shapes.lean`) -/
theorem shape_handleCallback_ok : Oidc.Shapes.Shape_handleCallback := by unfold Oidc.Shapes.Shape_handleCallback; rfl
theorem shape_handleLogout_ok : Oidc.Shapes.Shape_handleLogout := by unfold Oidc.Shapes.Shape_handleLogout; rfl
theorem shape_defaultInitiateAuthentication_ok : Oidc.Shapes.Shape_defaultInitiateAuthentication := by unfold Oidc.Shapes.Shape_defaultInitiateAuthentication; rfl

theorem shape_determineScheme_ok : Oidc.Shapes.Shape_determineScheme := by unfold Oidc.Shapes.Shape_determineScheme; rfl
theorem shape_determineHost_ok : Oidc.Shapes.Shape_determineHost := by unfold Oidc.Shapes.Shape_determineHost; rfl
/-! obligations against the regenerated program text: the functions these theorems rest on read, statement for statement, as
    they did when the model was written after them (`Oidc/Shapes.lean`) -/
theorem text_isLocalRedirectTarget_ok : Oidc.Shapes.Text_isLocalRedirectTarget := by unfold Oidc.Shapes.Text_isLocalRedirectTarget; rfl
theorem text_buildFullURL_ok : Oidc.Shapes.Text_buildFullURL := by unfold Oidc.Shapes.Text_buildFullURL; rfl

/-! further obligations against the regenerated program text (`Oidc/Shapes.lean`): constructor wiring and URL builders -/
theorem text_TraefikOidc_buildAuthURL_ok : Oidc.Shapes.Text_TraefikOidc_buildAuthURL := by unfold Oidc.Shapes.Text_TraefikOidc_buildAuthURL; rfl
theorem text_TraefikOidc_buildURLWithParams_ok : Oidc.Shapes.Text_TraefikOidc_buildURLWithParams := by unfold Oidc.Shapes.Text_TraefikOidc_buildURLWithParams; rfl
theorem text_BuildLogoutURL_ok : Oidc.Shapes.Text_BuildLogoutURL := by unfold Oidc.Shapes.Text_BuildLogoutURL; rfl
theorem text_New_ok : Oidc.Shapes.Text_New := by unfold Oidc.Shapes.Text_New; rfl


/-! ## Program text of the helpers these theorems also rest on (constructors, accessors, token endpoint, configuration) -/
theorem text_Config_Validate_ok : Oidc.Shapes.Text_Config_Validate := by unfold Oidc.Shapes.Text_Config_Validate; rfl
theorem text_isValidSecureURL_ok : Oidc.Shapes.Text_isValidSecureURL := by unfold Oidc.Shapes.Text_isValidSecureURL; rfl

/-! further functions these theorems rest on (every forwarded request passes through them) -/
theorem text_SessionData_GetIncomingPath_ok : Oidc.Shapes.Text_SessionData_GetIncomingPath := by unfold Oidc.Shapes.Text_SessionData_GetIncomingPath; rfl
theorem text_SessionData_SetIncomingPath_ok : Oidc.Shapes.Text_SessionData_SetIncomingPath := by unfold Oidc.Shapes.Text_SessionData_SetIncomingPath; rfl

/-! ## The same statements about the code itself: the functions below are `Oidc.Generated.Code`, which `tools/go2lean` translates
    from /repo's source, statement by statement, on every run (meaning of the Go constructs: `Oidc/GoLib.lean`) -/
open Oidc.Generated Oidc.CodeRefine in
/-- main.go `isLocalRedirectTarget` as translated is the model's predicate -/
theorem code_isLocalRedirectTarget (s : Str) : Code.isLocalRedirectTarget s = isLocalTarget s :=
  isLocalRedirectTarget_refines s

open Oidc.Generated Oidc.CodeRefine in
/-- hence a target it lets through resolves, in a browser, on the origin it is resolved against -/
theorem code_local_is_same_origin (t : Str) (h : Code.isLocalRedirectTarget t = true) (hc : ∀ c ∈ t, isTabNl c = false) :
    resolveOrigin t = .same := by
  rw [code_isLocalRedirectTarget] at h; exact local_is_same_origin t h hc

open Oidc.Generated Oidc.CodeRefine in
/-- main.go `buildFullURL` as translated: a local path is appended to `scheme://host` unchanged -/
theorem code_buildFullURL_local (scheme host path : Str) (hl : isLocalTarget path = true) :
    Code.buildFullURL scheme host path = scheme ++ "://".toList ++ host ++ path :=
  buildFullURL_local scheme host path hl

open Oidc.Generated Oidc.CodeRefine in
/-- main.go `determineScheme` / `determineHost` as translated are the model's: the origin comes from X-Forwarded-Proto /
    X-Forwarded-Host when present, else from the connection and the Host header -/
theorem code_origin (t : Go.Inst) (q : RawReq) :
    Code.TraefikOidc_determineScheme t (goReq q) ++ "://".toList ++ Code.TraefikOidc_determineHost t (goReq q) = (digest q).base := by
  rw [determineScheme_refines, determineHost_refines]; rfl


/-! ### the configuration gate, translated from settings.go on every run -/

/-- the post-logout target of an accepted configuration is empty, `/`, an https URL or a path; the callback path begins with `/` -/
theorem code_validated_redirect_targets (c : Go.Config) (h : Oidc.Generated.Code.Config_Validate c = none) :
    (c.PostLogoutRedirectURI = [] ∨ c.PostLogoutRedirectURI = ['/'] ∨ c.isValidSecureURL c.PostLogoutRedirectURI = true ∨
      Go.hasPrefix c.PostLogoutRedirectURI ['/'] = true) ∧ Go.hasPrefix c.CallbackURL ['/'] = true :=
  ⟨(Oidc.CodeConfig.Validate_none c h).postLogout, (Oidc.CodeConfig.Validate_none c h).callback⟩

end Oidc.Props.C15
