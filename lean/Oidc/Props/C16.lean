import Oidc.Proofs.Digest
import Oidc.Shapes
import Oidc.Proofs.Strings
import Oidc.Proofs.Handler2
import Oidc.Proofs.Handler5
/-! # C16 — error responses never reflect request data unescaped (property theorems only)

`Body` enumerates what the middleware writes itself: `html m` (the error page template with `m` interpolated), `json m`
(an object built by `encoding/json`), `plain` (`http.Error`: constant text, `text/plain`, `nosniff`).  Redirect bodies are
written by `net/http` (escaped there; trusted).  Well-formedness of `encoding/json` output is trusted as well; the
harness parses every JSON body. -/
namespace Oidc.Props.C16
open Oidc Oidc.Session Oidc.Handler Oidc.Strings

/-- an escaped string contains none of `< > " '` -/
theorem escape_safe (s : Str) : ∀ x ∈ htmlEscape s, x ≠ '<' ∧ x ≠ '>' ∧ x ≠ '"' ∧ x ≠ '\'' :=
  Oidc.Strings.htmlEscape_safe s

/-- every `&` of an escaped string starts one of the five entities: per character, the escape is the character itself (not one
    of the five) or exactly one entity -/
theorem escape_entities (c : Char) :
    esc1 c = [c] ∧ c ≠ '<' ∧ c ≠ '>' ∧ c ≠ '&' ∧ c ≠ '\'' ∧ c ≠ '"' ∨
    esc1 c ∈ ["&lt;".toList, "&gt;".toList, "&amp;".toList, "&#39;".toList, "&#34;".toList] := by
  unfold esc1
  by_cases h1 : c = '<'
  · right; simp [h1]
  by_cases h2 : c = '>'
  · right; simp [h1, h2]
  by_cases h3 : c = '&'
  · right; simp [h1, h2, h3]
  by_cases h4 : c = '\''
  · right; simp [h1, h2, h3, h4]
  by_cases h5 : c = '"'
  · right; simp [h1, h2, h3, h4, h5]
  left; simp [h1, h2, h3, h4, h5]

/-- every HTML body the middleware produces is the template around `htmlEscape msg`: whatever `msg` is (in particular the
    callback's `error_description` / `error`), every `<` of the page is a `<` of the constant template -/
theorem errPage_html (r : Req) (code : Nat) (msg : Str) (c' : Nat) (m : Str)
    (h : errPage r code msg = .status c' (.html m)) : m = htmlEscape msg :=
  Oidc.Handler.errPage_html r code msg c' m h

/-- the error page is HTML (escaped) or JSON, by the client's Accept header; nothing else -/
theorem errPage_kinds (r : Req) (code : Nat) (msg : Str) :
    errPage r code msg = .status code (.json msg) ∨ errPage r code msg = .status code (.html (htmlEscape msg)) := by
  unfold errPage; split <;> simp

/-- request-data sinks: the only request-derived text in any body of the callback is the provider error text, and it goes
    through `errPage` (hence is escaped in HTML, a JSON string otherwise) -/
theorem callback_error_body (c : Cfg) (e : Env) (r : Req) (v : View) (h : r.qError ≠ []) :
    (handleCallback c e r v).resp =
      errPage r 400 ("Authentication error from provider: ".toList ++ (if r.qErrDesc = [] then r.qError else r.qErrDesc)) := by
  unfold handleCallback
  rw [if_pos h]
  rfl

/-! non-vacuity -/
example : htmlEscape "<script>alert('x')</script>".toList = "&lt;script&gt;alert(&#39;x&#39;)&lt;/script&gt;".toList := by decide
example : htmlEscape "a&b\"c".toList = "a&amp;b&#34;c".toList := by decide

/-- which clients get the JSON body: exactly those whose `Accept` header contains `application/json` somewhere (`digest` models
    `strings.Contains`); without an `Accept` header the HTML page is served -/
theorem json_clients (q : Oidc.Handler.RawReq) :
    (Oidc.Handler.digest q).json = true ↔
      ∃ a b, Oidc.Handler.hdrGet q.hdrs "Accept".toList = a ++ "application/json".toList ++ b :=
  Oidc.Handler.isInfix_iff _ _

/-! obligation against the regenerated shapes: `sendErrorResponse` still has the steps the model was written against — JSON
    bodies through `encoding/json`, the HTML page through `html.EscapeString` and the pinned template (`Oidc/Shapes.lean`) -/
theorem shape_sendErrorResponse_ok : Oidc.Shapes.Shape_sendErrorResponse := by unfold Oidc.Shapes.Shape_sendErrorResponse; rfl


/-! ## Program text of the helpers these theorems also rest on (constructors, accessors, token endpoint, configuration) -/
theorem text_handleError_ok : Oidc.Shapes.Text_handleError := by unfold Oidc.Shapes.Text_handleError; rfl

end Oidc.Props.C16
