import Oidc.Shapes
import Oidc.Proofs.World2
import Oidc.Proofs.Handler3
import Oidc.Proofs.Session
import Oidc.Facts
/-! # C17 — bad client state never causes 5xx or panic; it restarts login and heals the cookies (property theorems only)

The model is total (no partial function, no exception): the code-side counterpart "never panics" is observed by the
harness (every handler call runs under `recover`).  `CV.bad` stands for every cookie value that is not authentic for that
exact name under the deployment key, is older than the codec's 30-day limit, or exceeds its length limit (C09). -/
namespace Oidc.Props.C17
open Oidc Oidc.Session Oidc.Handler Oidc.World Oidc.Strings

/-- **partial** (known finding K1): 5xx only on the callback path and only for one of seven named causes; six are answers of
    the token endpoint (transport failure, badly signed / unparsable token, token without nonce or e-mail, missing session
    nonce after a successful exchange), the seventh — `nonceMismatch` — is reachable with a healthy provider from
    client-chosen input (state of one initiation, code of an earlier one) and is answered 500 by the code.
    FULL STATEMENT (not proved, false of the code — K1): `500 ≤ code → r.path = c.callback ∧ (provider misbehaved)`. -/
theorem only_callback_5xx_partial (c : Cfg) (e : Env) (r : Req) (v : View) (h : 500 ≤ (serveV c e r v).resp.code) :
    r.path = c.callback ∧ Cb5xx c e r v :=
  Oidc.Handler.only_callback_5xx c e r v h

/-- an undecodable cookie is the same as an absent one -/
theorem bad_is_absent (j : Jar) (n : Name) (h : j n = some .bad) : loadOne j n = loadOne (fun m => if m = n then none else j m) n := by
  unfold loadOne; simp [h]

/-- a request (not excluded, not callback/logout) whose cookies do not amount to an authenticated session and hold no refresh
    token — undecodable, made under another key, cleared, over-age — is answered with a login redirect, makes no provider call,
    and every cookie of the session is replaced by a fresh authentic one or deleted: no unusable cookie survives -/
theorem unusable_redirects (c : Cfg) (e : Env) (r : Req) (j : Jar) (fuel : Nat)
    (hpath : excludedPath c r.path = false ∧ r.path ≠ c.logout ∧ r.path ≠ c.callback)
    (hno : getAuth c.maxAge e.now (getSession c.maxAge j e.now fuel) = false)
    (hrt : getToken e.decompress (getSession c.maxAge j e.now fuel) .refresh = []) :
    (serveJar c e r j fuel).1.resp =
      .redirectAuth (e.rnd 0) (e.rnd 1) (if c.pkce then e.s256 (e.rnd 2) else []) (r.base ++ c.callback) ∧
    (serveJar c e r j fuel).1.calls = [] ∧
    (serveJar c e r j fuel).2 = saveApply (initView c e r (getSession c.maxAge j e.now fuel)) ∧
    ∀ n, (serveJar c e r j fuel).2 n ≠ some .bad :=
  Oidc.World.unusable_redirects c e r j fuel hpath hno hrt

/-- healing: from whatever view the first request found, the callback that follows the login redirect with that redirect's
    state and a code a conformant provider honours establishes the session (then `Props.C04.session_continues` forwards) -/
theorem heals (c : Cfg) (e1 e2 : Env) (r1 r2 : Req) (v : View) (fuel : Nat) (idRaw rt em : Str)
    (hfuel : ∀ k, (v.chunks k).length ≤ fuel)
    (hst : e1.rnd 0 ≠ []) (hno : e1.rnd 1 ≠ [])
    (hq : r2.qError = [] ∧ r2.qState = e1.rnd 0 ∧ r2.qCode ≠ [])
    (hx : e2.exchange r2.qCode (if c.pkce then e1.rnd 2 else []) (r2.base ++ c.callback) = .ok idRaw rt)
    (hv : e2.verifyTok idRaw = true) (hp : (e2.tok idRaw).parses = true)
    (hn : (e2.tok idRaw).nonce = some (e1.rnd 1)) (hemail : (e2.tok idRaw).email = some em) (hem : em ≠ [])
    (hdom : isAllowedDomain c.allowDomains em = true) :
    let j1 := saveApply (initView c e1 r1 v)
    let vcb := getSession c.maxAge j1 e2.now fuel
    vcb = initView c e1 r1 v ∧
    (handleCallback c e2 r2 vcb).saved = [loggedInView c e2 vcb idRaw rt em] ∧
    (handleCallback c e2 r2 vcb).calls = [Call.exchange r2.qCode (if c.pkce then e1.rnd 2 else []) (r2.base ++ c.callback)] ∧
    (handleCallback c e2 r2 vcb).resp = .redirectLocal (postLoginTarget c vcb) :=
  Oidc.World.login_completes c e1 e2 r1 r2 v fuel idRaw rt em hfuel hst hno hq hx hv hp hn hemail hem hdom

/-- long or odd request URIs: what is stored is a local target no longer than the cap, so `Save` cannot fail on it (C18) -/
theorem stored_uri_bounded (maxLen : Nat) (uri : Str) : (sanitizeIncoming maxLen uri).length ≤ max maxLen 1 :=
  Oidc.Strings.sanitize_len maxLen uri

/-- obligations against the regenerated facts -/
theorem facts_ok : Oidc.Facts.GoodIncoming ∧ Oidc.Facts.GoodSession := by decide

/-! obligations against the regenerated shapes: the functions these theorems rest on still have the steps, guards, status
    codes and literals the model was written against (`Oidc/Shapes.lean`) -/
theorem shape_ServeHTTP_ok : Oidc.Shapes.Shape_ServeHTTP := by unfold Oidc.Shapes.Shape_ServeHTTP; rfl
theorem shape_handleExpiredToken_ok : Oidc.Shapes.Shape_handleExpiredToken := by unfold Oidc.Shapes.Shape_handleExpiredToken; rfl
theorem shape_defaultInitiateAuthentication_ok : Oidc.Shapes.Shape_defaultInitiateAuthentication := by unfold Oidc.Shapes.Shape_defaultInitiateAuthentication; rfl

/-! obligations against the regenerated program text of session.go: the functions these theorems rest on read, statement for
    statement, as they did when the session model was written after them (`Oidc/Shapes.lean`) -/
theorem text_SessionManager_GetSession_ok : Oidc.Shapes.Text_SessionManager_GetSession := by unfold Oidc.Shapes.Text_SessionManager_GetSession; rfl
theorem text_SessionManager_getTokenChunkSessions_ok : Oidc.Shapes.Text_SessionManager_getTokenChunkSessions := by unfold Oidc.Shapes.Text_SessionManager_getTokenChunkSessions; rfl
theorem text_SessionData_Clear_ok : Oidc.Shapes.Text_SessionData_Clear := by unfold Oidc.Shapes.Text_SessionData_Clear; rfl
theorem text_SessionData_GetAccessToken_ok : Oidc.Shapes.Text_SessionData_GetAccessToken := by unfold Oidc.Shapes.Text_SessionData_GetAccessToken; rfl
theorem text_SessionData_GetRefreshToken_ok : Oidc.Shapes.Text_SessionData_GetRefreshToken := by unfold Oidc.Shapes.Text_SessionData_GetRefreshToken; rfl

theorem shape_handleCallback_ok : Oidc.Shapes.Shape_handleCallback := by unfold Oidc.Shapes.Shape_handleCallback; rfl

/-! ## Program text of the helpers these theorems also rest on (constructors, accessors, token endpoint, configuration) -/
theorem text_Config_Validate_ok : Oidc.Shapes.Text_Config_Validate := by unfold Oidc.Shapes.Text_Config_Validate; rfl

end Oidc.Props.C17
