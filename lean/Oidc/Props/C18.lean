import Oidc.Proofs.Session
import Oidc.Proofs.CodeHandler
import Oidc.Shapes
import Oidc.Proofs.Codec
import Oidc.Facts
/-! # C18 — every cookie is HttpOnly, SameSite=Lax, Path=/, Secure when forced, under 4 KB (property theorems only)

Length arithmetic of a Set-Cookie line: `name=` ++ securecookie value ++ attributes.  `gobMap`/`ifaceStr`/… are the exact
byte counts of `encoding/gob` for the session maps (DESIGN.md appendix B); every run checks them for *equality* against
every line the implementation emits (the driver computes `lineLen` from the model's own payloads).  The attribute set is a
regenerated fact: the literal `sessions.Options` of `getSessionOptions`, assigned to every session `Save` writes. -/
namespace Oidc.Props.C18
open Oidc Oidc.Codec

/-- every chunk cookie: chunk of at most `maxCookieSize ≤ 2000` bytes, any index below 10⁶ (name ≤ 22 bytes), encrypted or not,
    with or without `Secure`: the whole line is at most 4096 bytes -/
theorem chunk_line_le_4096 (f : LenFacts) (ht : f.tsDigits ≤ 10) (maxSz n nameLen : Nat) (hmax : maxSz ≤ 2000)
    (hn : n ≤ maxSz) (hname : nameLen ≤ 22) : lineLen f nameLen (chunkGob n) ≤ 4096 :=
  Oidc.Codec.chunk_line_le_4096 f ht maxSz n nameLen hmax hn hname

/-- the unchunked token cookie `{"token": z, "compressed": true}` with `|z| ≤ maxCookieSize` -/
theorem whole_line_le_4096 (f : LenFacts) (ht : f.tsDigits ≤ 10) (maxSz n : Nat) (hmax : maxSz ≤ 2000)
    (hn : n ≤ maxSz) : lineLen f 15 (wholeGob n) ≤ 4096 :=
  Oidc.Codec.whole_line_le_4096 f ht maxSz n hmax hn

/-- the main cookie: remembered URI ≤ 1024 bytes, e-mail ≤ 320 bytes (a hypothesis about the provider: RFC 5321 allows 254),
    state 36, nonce 44, verifier 43 characters; any subset of fields -/
theorem main_line_le_4096 (f : LenFacts) (ht : f.tsDigits ≤ 10) (count entries em inc : Nat) (hc : count < 128)
    (hem : em ≤ 320) (hinc : inc ≤ 1024) (he : entries ≤ mainEntries em inc) :
    lineLen f 15 (gobMap count entries) ≤ 4096 :=
  Oidc.Codec.main_line_le_4096 f ht count entries em inc hc hem hinc he

/-- **any content** (fix F17): a cookie is emitted only when its encoded value is within the ceiling the codecs are given in
    `NewSessionManager` (regenerated fact `cookieValueCeiling`; securecookie's `Encode` fails otherwise and `Save` writes nothing for
    it); with the name (≤ 22 bytes), `=` and the attributes (≤ 94 bytes) the line stays within 4096 bytes whatever the session
    holds — an e-mail claim or a token of any length and content included.  No hypothesis on the payload. -/
theorem every_emitted_line_le_4096 (f : LenFacts) (ceiling nameLen gob : Nat) (hpos : 0 < ceiling) (hc : ceiling + 117 ≤ 4096)
    (hname : nameLen ≤ 22) (h : fits ceiling f gob = true) : lineLen f nameLen gob ≤ 4096 :=
  Oidc.Codec.line_le_of_fits f ceiling nameLen gob hpos hc hname h

/-- within the domain the handler produces the ceiling is never reached, so no `Save` fails for length: chunks and whole tokens
    of at most 2000 bytes, the main cookie with e-mail ≤ 320 and remembered URI ≤ 1024 bytes -/
theorem saves_fit (f : LenFacts) (ht : f.tsDigits ≤ 10) (ceiling : Nat) (hc : 3810 ≤ ceiling) :
    (∀ n, n ≤ 2000 → fits ceiling f (chunkGob n) = true) ∧ (∀ n, n ≤ 2000 → fits ceiling f (wholeGob n) = true) ∧
    (∀ count entries em inc, count < 128 → em ≤ 320 → inc ≤ 1024 → entries ≤ mainEntries em inc →
      fits ceiling f (gobMap count entries) = true) :=
  ⟨fun n hn => Oidc.Codec.chunk_fits f ht ceiling n hc hn, fun n hn => Oidc.Codec.whole_fits f ht ceiling n hc hn,
   fun count entries em inc h1 h2 h3 h4 => Oidc.Codec.main_fits f ht ceiling count entries em inc hc h1 h2 h3 h4⟩

/-- **lines that delete a cookie** (stale chunk cookies, a cleared session): the value is empty, so the line is the name plus at most
    91 bytes.  `deleteStaleChunkCookies` echoes a name only when it is one the middleware itself writes — `<base>_<index>` in canonical
    decimal (fix F19; text obligation `Text_SessionData_deleteStaleChunkCookies`): 15 bytes, `_`, and the at most 20 characters of an
    `int` — so the name has at most 36 bytes and the line at most 127. -/
theorem delete_line_le_4096 (secure : Bool) (nameLen : Nat) (h : nameLen ≤ 36) : delLineLen secure nameLen ≤ 127 ∧ delLineLen secure nameLen ≤ 4096 := by
  unfold delLineLen; cases secure <;> simp <;> omega

/-- calibration: the deleting line of `_oidc_raczylo_r_+7` observed on the tree before F19 had 101 bytes (not Secure) -/
example : delLineLen false 18 = 101 := by decide

/-- the attribute text of every line that sets a cookie (the model the correspondence runs compare, byte for byte, with every
    line the implementation emits): Path=/, Max-Age = the session lifetime, HttpOnly, Secure when required, SameSite=Lax — and
    nothing else (no Domain) -/
theorem attributes (secure : Bool) (maxAge : Int) (h : 0 < maxAge) :
    attrsOf secure maxAge = ["Path=/", s!"Max-Age={maxAge}", "HttpOnly"] ++ (if secure then ["Secure"] else []) ++ ["SameSite=Lax"] ∧
    "HttpOnly" ∈ attrsOf secure maxAge ∧ "SameSite=Lax" ∈ attrsOf secure maxAge ∧ "Path=/" ∈ attrsOf secure maxAge ∧
    (secure = true → "Secure" ∈ attrsOf secure maxAge) := by
  unfold attrsOf
  rw [if_pos h]
  cases secure <;> simp

/-- for the code as it is: the lifetime printed is the 24-hour session timeout -/
theorem current_max_age : Oidc.Current.maxAgeSec = 86400 := by decide

/-- the byte count `attrsLen` used by the length theorems is the length of that text plus the `Expires` attribute (39 bytes) -/
theorem attrsLen_is_text_len (secure : Bool) :
    attrsLen ⟨true, secure, 10⟩ = 39 + ((attrsOf secure 86400).map (fun a => a.length + 2)).sum := by
  cases secure <;> decide

/-- obligations against the regenerated facts: chunk size, URI cap, cookie names with the prefix and of the assumed lengths,
    and the attribute literal (HttpOnly, SameSite=Lax, Path=/ with no Domain, Max-Age = the 24-hour session timeout, Secure
    whenever forceHTTPS), assigned by `Save` to every session it writes -/
def GoodCookies : Prop :=
  Oidc.Generated.maxCookieSize ≤ 2000 ∧ 0 < Oidc.Generated.maxCookieSize ∧ Oidc.Generated.maxIncomingPathLength ≤ 1024 ∧
  Oidc.Generated.absoluteSessionTimeoutSec ≤ 86400 ∧
  Oidc.Generated.mainCookieName = "_oidc_raczylo_m" ∧ Oidc.Generated.accessTokenCookie = "_oidc_raczylo_a" ∧
  Oidc.Generated.refreshTokenCookie = "_oidc_raczylo_r" ∧
  Oidc.Generated.optHttpOnly = true ∧ Oidc.Generated.optSameSiteLax = true ∧ Oidc.Generated.optPathRoot = true ∧
  Oidc.Generated.optMaxAgeIsSessionTimeout = true ∧ Oidc.Generated.optSecureIncludesForceHTTPS = true ∧
  Oidc.Generated.saveAssignsOptionsToAll = true ∧ Oidc.Generated.securecookieMaxLen = 4096
instance : Decidable GoodCookies := by unfold GoodCookies; infer_instance
theorem facts_ok : GoodCookies := by decide

/-- obligation against the regenerated facts: the ceiling on the encoded value leaves room for name and attributes, and is
    above what the handler's own cookies need -/
def GoodCeiling : Prop := 0 < Oidc.Generated.cookieValueCeiling ∧ Oidc.Generated.cookieValueCeiling + 117 ≤ 4096 ∧ 3810 ≤ Oidc.Generated.cookieValueCeiling
instance : Decidable GoodCeiling := by unfold GoodCeiling; infer_instance
theorem ceiling_ok : GoodCeiling := by decide

/-- for the code as it is: whatever a session holds, a line that is emitted is at most 4096 bytes long -/
theorem current_every_line_le_4096 (f : LenFacts) (nameLen gob : Nat) (hname : nameLen ≤ 22)
    (h : fits Oidc.Generated.cookieValueCeiling f gob = true) : lineLen f nameLen gob ≤ 4096 :=
  every_emitted_line_le_4096 f _ nameLen gob ceiling_ok.1 ceiling_ok.2.1 hname h

/-- a session that is emitted and one that is not (premises satisfiable both ways): a three-field main cookie with a
    100-character and with a 2 100-character e-mail -/
example : fits Oidc.Generated.cookieValueCeiling ⟨true, true, 10⟩ (gobMap 3 ((ifaceStr 13 + ifaceBool) + (ifaceStr 10 + ifaceInt 5) + (ifaceStr 5 + ifaceStr 100))) = true ∧
    fits Oidc.Generated.cookieValueCeiling ⟨true, true, 10⟩ (gobMap 3 ((ifaceStr 13 + ifaceBool) + (ifaceStr 10 + ifaceInt 5) + (ifaceStr 5 + ifaceStr 2100))) = false := by
  decide

/-- for the code as it is: chunk and token cookies of the current chunk size fit, encrypted, with `Secure`, ten-digit timestamp -/
theorem current_chunk_fits (n nameLen : Nat) (hn : n ≤ Oidc.Current.maxSz) (hname : nameLen ≤ 22) (secure : Bool) :
    lineLen ⟨Oidc.Current.cookiesEncrypted, secure, 10⟩ nameLen (chunkGob n) ≤ 4096 :=
  chunk_line_le_4096 _ (Nat.le_refl 10) Oidc.Current.maxSz n nameLen facts_ok.1 hn hname

/-! calibration against measured lines (unencrypted 3 824, encrypted 3 856 bytes for a full chunk; 3000-byte chunks would not fit) -/
example : chunkGob 2000 = 2058 := by decide
example : lineLen ⟨false, false, 10⟩ 17 (chunkGob 2000) = 3824 := by decide
example : lineLen ⟨true, false, 10⟩ 17 (chunkGob 2000) = 3856 := by decide
example : lineLen ⟨true, true, 10⟩ 17 (chunkGob 3000) > 4096 := by decide

/-! obligations against the regenerated program text of session.go: the functions these theorems rest on read, statement for
    statement, as they did when the session model was written after them (`Oidc/Shapes.lean`) -/
theorem text_NewSessionManager_ok : Oidc.Shapes.Text_NewSessionManager := by unfold Oidc.Shapes.Text_NewSessionManager; rfl
theorem text_SessionManager_getSessionOptions_ok : Oidc.Shapes.Text_SessionManager_getSessionOptions := by unfold Oidc.Shapes.Text_SessionManager_getSessionOptions; rfl
theorem text_SessionData_Save_ok : Oidc.Shapes.Text_SessionData_Save := by unfold Oidc.Shapes.Text_SessionData_Save; rfl
theorem text_SessionData_deleteStaleChunkCookies_ok : Oidc.Shapes.Text_SessionData_deleteStaleChunkCookies := by unfold Oidc.Shapes.Text_SessionData_deleteStaleChunkCookies; rfl
theorem text_SessionData_SetAccessToken_ok : Oidc.Shapes.Text_SessionData_SetAccessToken := by unfold Oidc.Shapes.Text_SessionData_SetAccessToken; rfl
theorem text_SessionData_SetRefreshToken_ok : Oidc.Shapes.Text_SessionData_SetRefreshToken := by unfold Oidc.Shapes.Text_SessionData_SetRefreshToken; rfl
theorem text_SessionData_expireAccessTokenChunks_ok : Oidc.Shapes.Text_SessionData_expireAccessTokenChunks := by unfold Oidc.Shapes.Text_SessionData_expireAccessTokenChunks; rfl
theorem text_SessionData_expireRefreshTokenChunks_ok : Oidc.Shapes.Text_SessionData_expireRefreshTokenChunks := by unfold Oidc.Shapes.Text_SessionData_expireRefreshTokenChunks; rfl
theorem text_splitIntoChunks_ok : Oidc.Shapes.Text_splitIntoChunks := by unfold Oidc.Shapes.Text_splitIntoChunks; rfl
theorem text_SessionData_Clear_ok : Oidc.Shapes.Text_SessionData_Clear := by unfold Oidc.Shapes.Text_SessionData_Clear; rfl

/-! ## The same statements about the code itself: the functions below are `Oidc.Generated.Code`, which `tools/go2lean` translates
    from /repo's source, statement by statement, on every run (meaning of the Go constructs: `Oidc/GoLib.lean`) -/
open Oidc.Generated Oidc.CodeRefine in
/-- session.go `splitIntoChunks` as translated never yields a piece longer than the chunk size (what the per-cookie bound is
    applied to) -/
theorem code_chunk_pieces_le (s : Str) (n : Int) (hn : 0 < n) :
    ∃ cs, Code.splitIntoChunks (s.length + 1) s n = some cs ∧ ∀ c ∈ cs, c.length ≤ n.toNat :=
  ⟨Oidc.Session.splitN n.toNat s, splitIntoChunks_refines s n hn _ (Nat.lt_succ_self _),
    fun c hc => (Oidc.Session.splitN_piece_le n.toNat s c hc).1⟩


/-! ### the cookie attributes, translated from session.go on every run -/

/-- `SessionManager.getSessionOptions` as it stands in /repo: every cookie it configures is HttpOnly, SameSite=Lax, Path=/, lives
    86 400 s (the absolute session lifetime), has no Domain attribute, and is Secure exactly when the request arrived over TLS or
    HTTPS is forced -/
theorem code_getSessionOptions (sm : Go.SessMgr) (isSecure : Bool) :
    let o := Oidc.Generated.Code.SessionManager_getSessionOptions sm isSecure
    o.HttpOnly = true ∧ o.SameSite = Go.SameSite.lax ∧ o.Path = ['/'] ∧ o.MaxAge = 86400 ∧ o.Domain = [] ∧
    o.Secure = (isSecure || sm.forceHTTPS) := by
  refine ⟨rfl, rfl, rfl, ?_, rfl, rfl⟩
  show Go.int64 (Go.durSeconds Oidc.Generated.Code.absoluteSessionTimeout) = 86400
  decide

/-- forced HTTPS: Secure whatever the request looked like -/
theorem code_getSessionOptions_forced (sm : Go.SessMgr) (isSecure : Bool) (h : sm.forceHTTPS = true) :
    (Oidc.Generated.Code.SessionManager_getSessionOptions sm isSecure).Secure = true := by
  simp [Oidc.Generated.Code.SessionManager_getSessionOptions, h]

end Oidc.Props.C18
