import Oidc.Proofs.CodeConfig
import Oidc.Proofs.CodeVerify
import Oidc.Shapes
import Oidc.Proofs.Limiter2
import Oidc.Proofs.Verify
import Oidc.Facts
/-! # C19 — verification rate limit (property theorems only)

Token bucket in exact integer arithmetic: time in ns, one token = `U` = 10⁹ units, refill `r` units per ns (= tokens per
second), bucket `b` units.  With the regenerated facts `r = rateLimit`, `b = rateLimit · U`. -/
namespace Oidc.Props.C19
open Oidc Oidc.Limiter

/-- upper bound: among arrivals inside any window `[a, a + w]` (state clocked at `a`) at most `(b + r·w)/U` are admitted;
    for `w` = 1 s, `b = R·U`, `r = R`: at most `2R` — rateLimit plus one burst of rateLimit -/
theorem upper (r b : Int) (hr : 0 ≤ r) (hb : 0 ≤ b) (l : L) (h : Inv b l) (w : Int) (ts : List Int)
    (hs : Sorted l.last ts) (hw : ∀ t ∈ ts, t ≤ l.last + w) (hw0 : 0 ≤ w) :
    U * (run r b l ts).2 ≤ b + r * w :=
  Oidc.Limiter.upper r b hr hb l h w ts hs hw hw0

/-- the instance for the configured limit: at most `2·R` admissions in any one-second window -/
theorem upper_one_second (R : Int) (hR : 0 ≤ R) (l : L) (h : Inv (R * U) l) (ts : List Int)
    (hs : Sorted l.last ts) (hw : ∀ t ∈ ts, t ≤ l.last + 1000000000) :
    ((run R (R * U) l ts).2 : Int) ≤ 2 * R := by
  have := upper R (R * U) hR (Int.mul_nonneg hR (by decide)) l h 1000000000 ts hs hw (by decide)
  simp only [U] at *
  omega

/-- a stream whose consecutive arrivals are at least `g` apart with `r·g ≥ U` (at most `r` per second) is admitted
    entirely, once the first arrival finds a token -/
theorem steady_admitted (r b : Int) (hr : 0 ≤ r) (hbU : U ≤ b) (g : Int) (hg : U ≤ r * g) (l : L) (hl : 0 ≤ l.tok)
    (ts : List Int) (t0 : Int) (h0 : l.last ≤ t0) (hU : U ≤ refill r b l t0)
    (hp : List.Pairwise (fun x y => x + g ≤ y) (t0 :: ts)) :
    ∀ d ∈ decisions r b l (t0 :: ts), d = true :=
  Oidc.Limiter.steady_admitted r b hr hbU g hg l hl ts t0 h0 hU (fun _ => trivial) hp

/-- sustained rate: over any stretch of continuous overload (consecutive arrivals at most `g` apart with `r·g ≤ U`, i.e. demand of
    at least `r` per second) starting from a drained bucket, `U·(admitted + 1) > r·Δ` — at least `r` per second are admitted -/
theorem overload_throughput (r b : Int) (hr : 0 ≤ r) (hb : 2 * U ≤ b) (g : Int) (hg : r * g ≤ U) (l : L)
    (hl0 : 0 ≤ l.tok) (hl : l.tok < U) (ts : List Int) (hs : Sorted l.last ts) (hd : Dense g l.last ts) :
    r * ((run r b l ts).1.last - l.last) < U * ((run r b l ts).2 + 1) :=
  Oidc.Limiter.overload_throughput r b hr hb g hg l hl0 hl ts hs hd

/-- conservation while the bucket is never full: tokens at the end + admitted = tokens at the start + refill -/
theorem run_exact (r b : Int) (l : L) (ts : List Int) (hs : Sorted l.last ts) (hu : Uncapped r b l ts) :
    (run r b l ts).1.tok + U * (run r b l ts).2 = l.tok + r * ((run r b l ts).1.last - l.last) ∧
    l.last ≤ (run r b l ts).1.last :=
  Oidc.Limiter.run_exact r b l ts hs hu

/-- the bucket invariant holds in every reachable state -/
theorem inv_run (r b : Int) (l : L) (ts : List Int) (hr : 0 ≤ r) (hb : 0 ≤ b) (h : Inv b l) : Inv b (run r b l ts).1 :=
  Oidc.Limiter.inv_run r b l ts hr hb h

/-- a verification refused by the limiter is not performed: revocation list and token cache stay as the cache lookup left
    them and the answer is negative whatever a from-scratch verification would say -/
theorem refused_not_performed (F : Verify.Facts) (T : Verify.TokOf) (v : Verify.V) (now : Int) (id : String)
    (hmiss : (Cache.get F.se v.tc now id).2.isSome = false)
    (href : (Limiter.allow F.r F.b v.lim now).2 = false) :
    (Verify.verify F T v now id).2 = false ∧ (Verify.verify F T v now id).1.bl = v.bl ∧
    (Verify.verify F T v now id).1.tc = (Cache.get F.se v.tc now id).1 :=
  Oidc.Verify.refused_not_performed F T v now id hmiss href

/-- obligation against the regenerated facts: refill rate and burst are both the configured rateLimit -/
theorem facts_ok : Oidc.Facts.GoodLimiter := by decide

/-- hence the model parameters the driver runs with are `r = R`, burst `R` -/
theorem current_rate (R : Int) : Oidc.Current.limiterRate R = R ∧ Oidc.Current.limiterBurst R = R := by
  simp [Oidc.Current.limiterRate, Oidc.Current.limiterBurst, facts_ok.1, facts_ok.2]

/-! non-vacuity / regression witnesses -/
example : (decisions 10 (10 * U) (init 10) ((List.range 40).map (fun (i : Nat) => (i : Int) * 100000000))).all id = true :=
  Oidc.Limiter.fixed_rate_admits
example : (decisions 1 (10 * U) (init 10) ((List.range 12).map (fun (i : Nat) => (i : Int) * 100000000))).getLast? = some false :=
  Oidc.Limiter.unfixed_rate_refuses
example : Limiter.Inv (10 * U) (init 10) := by simp [Limiter.Inv, init, U]
/-- overload at 30 per second against a limit of 10 per second, drained bucket, for one second: 10 admitted of 30 -/
example : (run 10 (10 * U) ⟨0, 0⟩ ((List.range 30).map (fun (i : Nat) => ((i : Int) + 1) * 33333333))).2 = 9 := by decide
example : Dense 33333333 0 ((List.range 30).map (fun (i : Nat) => ((i : Int) + 1) * 33333333)) := by
  simp only [Dense, List.range, List.range.loop, List.map]; decide

/-! obligations against the regenerated program text: the functions these theorems rest on read, statement for statement, as
    they did when the model was written after them (`Oidc/Shapes.lean`) -/
theorem text_TraefikOidc_VerifyToken_ok : Oidc.Shapes.Text_TraefikOidc_VerifyToken := by unfold Oidc.Shapes.Text_TraefikOidc_VerifyToken; rfl
theorem text_TraefikOidc_performPreVerificationChecks_ok : Oidc.Shapes.Text_TraefikOidc_performPreVerificationChecks := by unfold Oidc.Shapes.Text_TraefikOidc_performPreVerificationChecks; rfl

/-! further obligations against the regenerated program text (`Oidc/Shapes.lean`): constructor wiring and URL builders -/
theorem text_New_ok : Oidc.Shapes.Text_New := by unfold Oidc.Shapes.Text_New; rfl


/-! ## Program text of the helpers these theorems also rest on (constructors, accessors, token endpoint, configuration) -/
theorem text_Config_Validate_ok : Oidc.Shapes.Text_Config_Validate := by unfold Oidc.Shapes.Text_Config_Validate; rfl
theorem text_CreateConfig_ok : Oidc.Shapes.Text_CreateConfig := by unfold Oidc.Shapes.Text_CreateConfig; rfl

/-! ## The same statements about the code itself: the functions below are `Oidc.Generated.Code`, which `tools/go2lean` translates
    from /repo's source, statement by statement, on every run (meaning of the Go constructs: `Oidc/GoLib.lean`) -/
open Oidc.Generated Oidc.CodeRefine in
/-- main.go `VerifyToken` as translated: a verification the limiter refuses is not performed — the answer is the refusal and the
    state is the one the cache lookup and the limiter left, whatever parsing, key set, signature check and revocation list would
    have said (the result does not depend on the instance's verification functions at all) -/
theorem code_refused_not_performed {σ : Type} (ops : Go.VOps σ) (now : Int) (t t' : Go.Inst) (tok : Go.Str) (w : σ)
    (hmiss : (ops.tokenCacheGet w now tok).1.2 = false)
    (hrefuse : (ops.limiterAllow (ops.tokenCacheGet w now tok).2 now).1 = false) :
    Code.TraefikOidc_VerifyToken ops now t tok w = Code.TraefikOidc_VerifyToken ops now t' tok w ∧
    (Code.TraefikOidc_VerifyToken ops now t tok w).1.isSome = true ∧
    (Code.TraefikOidc_VerifyToken ops now t tok w).2 = (ops.limiterAllow (ops.tokenCacheGet w now tok).2 now).2 := by
  have key : ∀ t : Go.Inst, Code.TraefikOidc_VerifyToken ops now t tok w =
      (some ['r','a','t','e',' ','l','i','m','i','t',' ','e','x','c','e','e','d','e','d'], (ops.limiterAllow (ops.tokenCacheGet w now tok).2 now).2) := by
    intro t
    unfold Code.TraefikOidc_VerifyToken Code.TraefikOidc_performPreVerificationChecks
    obtain ⟨tcg, tcs, tcd, blg, bls, la⟩ := ops
    simp only at hmiss hrefuse ⊢
    rcases hg : tcg w now tok with ⟨⟨claims, found⟩, w1⟩
    rw [hg] at hmiss hrefuse
    simp only at hmiss hrefuse
    subst hmiss
    rcases hl : la w1 now with ⟨ok, w2⟩
    rw [hl] at hrefuse
    simp only at hrefuse
    subst hrefuse
    simp
  rw [key t, key t']
  exact ⟨rfl, rfl, rfl⟩

open Oidc.Generated Oidc.CodeRefine in
/-- the limiter is consulted at most once per call and only after a cache miss: a cached token is accepted without touching it -/
theorem code_cached_unlimited {σ : Type} (ops : Go.VOps σ) (now : Int) (t : Go.Inst) (tok : Go.Str) (w : σ)
    (hhit : (ops.tokenCacheGet w now tok).1.2 = true) (hne : (ops.tokenCacheGet w now tok).1.1 ≠ []) :
    Code.TraefikOidc_VerifyToken ops now t tok w = (none, (ops.tokenCacheGet w now tok).2) := by
  unfold Code.TraefikOidc_VerifyToken
  obtain ⟨tcg, tcs, tcd, blg, bls, la⟩ := ops
  simp only at hhit hne ⊢
  rcases hg : tcg w now tok with ⟨⟨claims, found⟩, w1⟩
  rw [hg] at hhit hne
  simp only at hhit hne
  subst hhit
  have hlen : decide ((claims.length : Int) > 0) = true := by
    cases claims with
    | nil => exact absurd rfl hne
    | cons a l => simp
  simp only [hlen, Bool.and_self, if_true]


/-! ### the configuration gate, translated from settings.go on every run -/

/-- a configuration `Config.Validate` accepts has a rate limit of at least 10 per second (the bucket is never empty by configuration) -/
theorem code_validated_rate_limit (c : Go.Config) (h : Oidc.Generated.Code.Config_Validate c = none) :
    (10 : Int) ≤ c.RateLimit := (Oidc.CodeConfig.Validate_none c h).rate

end Oidc.Props.C19
