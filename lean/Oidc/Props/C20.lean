import Oidc.Proofs.CodeDiscovery
import Oidc.Shapes
import Oidc.Proofs.Discovery
import Oidc.Facts
/-! # C20 — provider discovery failures fail closed and heal without a restart (property theorems only)

One outcome per HTTP attempt at the discovery endpoint (`fail dur` = refused connection, 5xx, malformed JSON, slow answer that
fails; `ok doc dur`); time on the virtual clock.  **Partial**: real-time liveness (goroutine scheduling, real network time-outs,
the 5-minute cap of one discovery round, which attempts of under a minute cannot reach) is represented by the virtual clock; the
theorems are about the retry / time-out state machine. -/
namespace Oidc.Props.C20
open Oidc Oidc.Discovery

/-- while provider metadata has not been obtained nothing is served: the answer is 503 or 408 -/
theorem fail_closed (f : Facts) (issuerEmpty : Bool) (reqAt : Int) (g : Option Int) :
    early f none issuerEmpty reqAt g ≠ .serve :=
  Oidc.Discovery.fail_closed f issuerEmpty reqAt g

/-- a request is not served if initialisation completes only after its waiting time -/
theorem not_served_before_init (f : Facts) (hw : 0 ≤ f.initWait) (t : Int) (issuerEmpty : Bool) (reqAt : Int)
    (g : Option Int) (h : reqAt + f.initWait < t) : early f (some t) issuerEmpty reqAt g ≠ .serve :=
  Oidc.Discovery.not_served_before_init f hw t issuerEmpty reqAt g h

/-- a document without issuer never opens the instance (no redirect to an empty or partial provider URL) -/
theorem empty_issuer_never_served (f : Facts) (initAt : Option Int) (reqAt : Int) (g : Option Int) :
    early f initAt true reqAt g ≠ .serve :=
  Oidc.Discovery.empty_issuer_never_served f initAt reqAt g

/-- healing: whatever finite sequence of failed attempts precedes it — of any length, of any kinds — the first healthy answer
    initialises the instance with that document, no later than the durations of the failed attempts plus
    `maxDelay + retryInterval` per failure -/
theorem heals {Doc : Type} (f : Facts) (hl : f.loops = true) (hb : 0 ≤ f.baseDelay) (hm : 0 ≤ f.maxDelay)
    (hr : 0 ≤ f.retryInterval) (fs : List (Outcome Doc)) (hf : allFail fs) (d : Doc) (dur : Int) (t : Int) (i : Nat) :
    (initRun f (fs ++ [.ok d dur]) t i).2 = some d ∧
    (initRun f (fs ++ [.ok d dur]) t i).1 ≤ t + totalDur fs + (fs.length : Int) * (f.maxDelay + f.retryInterval) + dur ∧
    t + dur ≤ (initRun f (fs ++ [.ok d dur]) t i).1 :=
  Oidc.Discovery.heals f hl hb hm hr fs hf d dur t i

/-- every request arriving after the initialisation instant is served -/
theorem served_after_init (f : Facts) (t reqAt : Int) (g : Option Int) (h : t ≤ reqAt) :
    early f (some t) false reqAt g = .serve :=
  Oidc.Discovery.served_after_init f t reqAt g h

/-- latest wins: after a refresh tick the endpoints are those of the document the round obtained; a failed refresh, or a tick
    while the cached document is still valid, keeps the previous ones -/
theorem latest_wins {Doc : Type} (f : Facts) (hour fiveMin : Int) (s : RState Doc) (now : Int) (script : List (Outcome Doc)) :
    (refreshTick f hour fiveMin s now script).1.doc =
      (if now < s.expires then s.doc else match (round f script now 0).2.1 with | some d => d | none => s.doc) :=
  Oidc.Discovery.refreshTick_doc f hour fiveMin s now script

/-- … and the document a round obtains is the first healthy answer, found within the retry budget -/
theorem round_first_healthy {Doc : Type} (f : Facts) (script : List (Outcome Doc)) (t : Int) (i : Nat) (d : Doc)
    (h : (round f script t i).2.1 = some d) :
    ∃ pre dur post, script = pre ++ .ok d dur :: post ∧ allFail' pre ∧ (pre = [] ∨ pre.length + i < f.maxRetries) :=
  Oidc.Discovery.round_some f script t i d h

/-- obligation against the regenerated facts: `initializeMetadata` loops until success with a non-negative pause, retry constants
    non-negative, the request waits 30 s -/
def GoodDiscovery : Prop :=
  Oidc.Generated.initializeMetadataLoops = true ∧ 0 ≤ Oidc.Generated.metadataRetryIntervalSec ∧ 1 ≤ Oidc.Generated.discoveryMaxRetries ∧
  0 ≤ Oidc.Generated.discoveryBaseDelaySec ∧ 0 ≤ Oidc.Generated.discoveryMaxDelaySec ∧ 0 ≤ Oidc.Generated.initWaitSec ∧
  Oidc.Generated.metadataRetryIntervalSec ≤ 3600
instance : Decidable GoodDiscovery := by unfold GoodDiscovery; infer_instance
theorem facts_ok : GoodDiscovery := by decide

/-- regression (the unrepaired shape): with a single `GetMetadata` call, `maxRetries` consecutive failures end the
    initialisation for good, whatever the provider answers afterwards -/
theorem unfixed_gives_up {Doc : Type} (f : Facts) (hl : f.loops = false) (fs tail : List (Outcome Doc))
    (hf : allFail fs) (i : Nat) (hlen : f.maxRetries ≤ i + fs.length) (hpos : fs ≠ []) (t : Int) :
    (initRun f (fs ++ tail) t i).2 = none :=
  Oidc.Discovery.unfixed_gives_up f hl fs tail hf i hlen hpos t

/-! non-vacuity: seven failures then a healthy answer, with the constants of the code (seconds) -/
def exF : Facts := { maxRetries := 5, baseDelay := 1, maxDelay := 30, retryInterval := 30, loops := true, initWait := 30 }
example : initRun exF ((List.replicate 7 (.fail 0)) ++ [.ok "doc" 0]) 0 0 = (64, some "doc") := by decide
example : (initRun { exF with loops := false } ((List.replicate 7 (.fail 0)) ++ [.ok "doc" 0]) 0 0).2 = none := by decide
example : early exF (some 64) false 40 none = .serve := by decide
example : early exF (some 64) false 30 none = .unavailable503 := by decide
example : early exF (some 64) false 40 (some 50) = .timeout408 := by decide

/-! ### only complete provider metadata is ever served with (fix F21)

The discovery answers as the HTTP client sees them, classified as `fetchMetadata` does: a 200 answer that decodes is provider
metadata only when every required member is non-empty.  Whatever the sequence of answers, the document the initialisation ends
with, and the document in force after any refresh tick, carries every required member: no request is redirected to an empty or
partial provider URL. -/

def needed : List String := ["issuer", "authorization_endpoint", "token_endpoint", "jwks_uri"]

/-- the members `fetchMetadata` (as it stands in /repo) insists on include the four every login, exchange and key fetch need -/
def RequiredOK : Prop := ∀ m ∈ needed, m ∈ Oidc.Generated.metadataRequired
theorem required_ok : RequiredOK := by unfold RequiredOK needed; decide

theorem init_document_complete {Doc : Type} (f : Facts) (required : List String) (present : Doc → List String)
    (answers : List (Answer Doc)) (t : Int) (i : Nat) (d : Doc)
    (h : (initRun f (answers.map (classify required present)) t i).2 = some d) : ∀ m ∈ required, m ∈ present d := by
  obtain ⟨dur, hm⟩ := initRun_mem f _ t i d h
  exact mem_classified required present answers d dur hm

theorem refresh_keeps_documents_complete {Doc : Type} (f : Facts) (hour fiveMin : Int) (required : List String)
    (present : Doc → List String) (s : RState Doc) (now : Int) (answers : List (Answer Doc))
    (hs : ∀ m ∈ required, m ∈ present s.doc) :
    ∀ m ∈ required, m ∈ present (refreshTick f hour fiveMin s now (answers.map (classify required present))).1.doc := by
  rw [refreshTick_doc]
  split
  · exact hs
  · cases h : (round f (answers.map (classify required present)) now 0).2.1 with
    | none => exact hs
    | some d =>
      obtain ⟨dur, hm⟩ := round_mem f _ now 0 d h
      exact mem_classified required present answers d dur hm

/-- the current tree: the document an instance serves with names issuer, authorization, token and key-set endpoint -/
theorem current_init_document_complete {Doc : Type} (f : Facts) (present : Doc → List String) (answers : List (Answer Doc))
    (t : Int) (i : Nat) (d : Doc)
    (h : (initRun f (answers.map (classify Oidc.Generated.metadataRequired present)) t i).2 = some d) :
    ∀ m ∈ needed, m ∈ present d :=
  fun m hm => init_document_complete f _ present answers t i d h m (required_ok m hm)

/-- an answer lacking a required member costs an attempt and changes nothing: it is a `fail` of the same duration, so `heals`,
    `round_first_healthy` and `latest_wins` apply to it as to a refused connection -/
theorem incomplete_answer_is_a_failed_attempt {Doc : Type} (required : List String) (present : Doc → List String) (d : Doc)
    (dur : Int) (m : String) (hm : m ∈ required) (hn : m ∉ present d) :
    classify required present (.json d dur) = .fail dur := classify_incomplete required present d dur m hm hn

/-- **heals, stated over what the provider actually answers.**  After any finite sequence of answers none of which is provider
    metadata — refused connections, failing statuses, bodies that do not decode, *and* 200 answers lacking a required member — the
    first complete document initialises the instance with that very document, no later than the durations of the failed attempts
    plus `maxDelay + retryInterval` per failure. -/
theorem heals_answers {Doc : Type} (f : Facts) (hl : f.loops = true) (hb : 0 ≤ f.baseDelay) (hm : 0 ≤ f.maxDelay)
    (hr : 0 ≤ f.retryInterval) (required : List String) (present : Doc → List String) (bad : List (Answer Doc))
    (hbad : ∀ a ∈ bad, BadAnswer required present a) (d : Doc) (hd : complete required (present d) = true) (dur : Int) (t : Int) (i : Nat) :
    (initRun f ((bad ++ [Answer.json d dur]).map (classify required present)) t i).2 = some d ∧
    (initRun f ((bad ++ [Answer.json d dur]).map (classify required present)) t i).1
      ≤ t + totalDur (bad.map (classify required present)) + (bad.length : Int) * (f.maxDelay + f.retryInterval) + dur := by
  have e : (bad ++ [Answer.json d dur]).map (classify required present) = bad.map (classify required present) ++ [.ok d dur] := by
    simp [classify, hd]
  rw [e]
  have h := Oidc.Discovery.heals f hl hb hm hr (bad.map (classify required present)) (allFail_classified required present bad hbad) d dur t i
  refine ⟨h.1, ?_⟩
  have hlen := totalDur_classified_length required present bad
  rw [hlen] at h
  exact h.2.1

-- (premises satisfiable / the classification at work: `{}`, issuer only, a refused connection, then a complete document)
example : (initRun exF ([Answer.json [] 0, .json ["issuer"] 0, .noAnswer 0, .json needed 0].map (classify needed id)) 0 0).2 = some needed := by decide
example : classify needed id (.json ["issuer", "authorization_endpoint", "token_endpoint"] 7) = .fail 7 := by simp [classify, complete, needed]


/-! obligations against the regenerated shapes: the functions these theorems rest on still have the steps, guards, status
    codes and literals the model was written against (`Oidc/Shapes.lean`) -/
theorem shape_ServeHTTP_ok : Oidc.Shapes.Shape_ServeHTTP := by unfold Oidc.Shapes.Shape_ServeHTTP; rfl

/-! obligations against the regenerated program text: the functions these theorems rest on read, statement for statement, as
    they did when the model was written after them (`Oidc/Shapes.lean`) -/
theorem text_TraefikOidc_initializeMetadata_ok : Oidc.Shapes.Text_TraefikOidc_initializeMetadata := by unfold Oidc.Shapes.Text_TraefikOidc_initializeMetadata; rfl
theorem text_TraefikOidc_updateMetadataEndpoints_ok : Oidc.Shapes.Text_TraefikOidc_updateMetadataEndpoints := by unfold Oidc.Shapes.Text_TraefikOidc_updateMetadataEndpoints; rfl
theorem text_TraefikOidc_startMetadataRefresh_ok : Oidc.Shapes.Text_TraefikOidc_startMetadataRefresh := by unfold Oidc.Shapes.Text_TraefikOidc_startMetadataRefresh; rfl
theorem text_discoverProviderMetadata_ok : Oidc.Shapes.Text_discoverProviderMetadata := by unfold Oidc.Shapes.Text_discoverProviderMetadata; rfl
theorem text_fetchMetadata_ok : Oidc.Shapes.Text_fetchMetadata := by unfold Oidc.Shapes.Text_fetchMetadata; rfl
theorem text_MetadataCache_GetMetadata_ok : Oidc.Shapes.Text_MetadataCache_GetMetadata := by unfold Oidc.Shapes.Text_MetadataCache_GetMetadata; rfl
theorem text_MetadataCache_isCacheValid_ok : Oidc.Shapes.Text_MetadataCache_isCacheValid := by unfold Oidc.Shapes.Text_MetadataCache_isCacheValid; rfl
theorem text_MetadataCache_Cleanup_ok : Oidc.Shapes.Text_MetadataCache_Cleanup := by unfold Oidc.Shapes.Text_MetadataCache_Cleanup; rfl

/-! further obligations against the regenerated program text (`Oidc/Shapes.lean`): constructor wiring and URL builders -/
theorem text_createDefaultHTTPClient_ok : Oidc.Shapes.Text_createDefaultHTTPClient := by unfold Oidc.Shapes.Text_createDefaultHTTPClient; rfl


/-! ## Program text of the helpers these theorems also rest on (constructors, accessors, token endpoint, configuration) -/
theorem text_NewMetadataCache_ok : Oidc.Shapes.Text_NewMetadataCache := by unfold Oidc.Shapes.Text_NewMetadataCache; rfl
theorem text_MetadataCache_Close_ok : Oidc.Shapes.Text_MetadataCache_Close := by unfold Oidc.Shapes.Text_MetadataCache_Close; rfl
theorem text_MetadataCache_startAutoCleanup_ok : Oidc.Shapes.Text_MetadataCache_startAutoCleanup := by unfold Oidc.Shapes.Text_MetadataCache_startAutoCleanup; rfl
theorem text_isValidSecureURL_ok : Oidc.Shapes.Text_isValidSecureURL := by unfold Oidc.Shapes.Text_isValidSecureURL; rfl

/-! ## The same statements about the code itself: the functions below are `Oidc.Generated.Code`, which `tools/go2lean` translates
    from /repo's source, statement by statement, on every run (meaning of the Go constructs: `Oidc/GoLib.lean`) -/
open Oidc.Generated Oidc.CodeRefine in
/-- main.go `discoverProviderMetadata` as translated, run against a virtual clock and a script of outcomes (what the harness drives
    the real code with): it terminates, and returns the first healthy document — or, after five failed attempts with the pauses
    1, 2, 4, 8, 16 s, an error — at exactly the instant and with exactly the rest of the script the model's `round` says; with
    attempts bounded by the HTTP client's 15 s its own five-minute guard is never reached -/
theorem code_discoverProviderMetadata (url : Go.Str) (hcl : Go.HTTPClient) (l : Go.Logger)
    (script : List (Outcome Nat)) (t : Int) (fuel : Nat) (hf : 6 ≤ fuel) (hlen : 5 ≤ script.length)
    (hd : ∀ o ∈ script, 0 ≤ durOf o ∧ durOf o ≤ 15000000000) :
    ∃ err, Code.discoverProviderMetadata fuel scriptOps url hcl l (script, t) =
        some (((round codeDF script t 0).2.1.map Go.Meta.mk, err), ((round codeDF script t 0).2.2.1, (round codeDF script t 0).1)) ∧
      err.isNone = (round codeDF script t 0).2.1.isSome :=
  discoverProviderMetadata_refines url hcl l script t fuel hf hlen hd

open Oidc.Generated Oidc.CodeRefine in
/-- the constants of the translated function are the ones the property's bound is computed from -/
theorem code_discovery_constants : codeDF.maxRetries = 5 ∧ codeDF.baseDelay = 1000000000 ∧ codeDF.maxDelay = 30000000000 := by decide

open Oidc.Generated Oidc.CodeRefine in
/-- metadata_cache.go `MetadataCache.GetMetadata` as translated, with a document in the cache, is the model's hourly refresh tick:
    before `expiresAt` the cached document is returned and the provider is not asked; afterwards one discovery round runs — a healthy
    answer replaces the document (good for one hour from the end of the round), a failed round keeps the old document and asks
    again after five minutes.  Instant, rest of the script and the new cache state are `Oidc.Discovery.refreshTick`'s: a provider
    outage during a refresh never takes the endpoints away. -/
theorem code_GetMetadata_is_refreshTick (url : Go.Str) (hcl : Go.HTTPClient) (l : Go.Logger) (c : Go.MetaCache) (d0 : Nat)
    (hc : c.metadata = some ⟨d0⟩) (script : List (Outcome Nat)) (t : Int) (fuel : Nat) (hf : 6 ≤ fuel) (hlen : 5 ≤ script.length)
    (hd : ∀ o ∈ script, 0 ≤ durOf o ∧ durOf o ≤ 15000000000) :
    let r := refreshTick codeDF Go.Hour (5 * Go.Minute) ⟨d0, c.expiresAt⟩ t script
    let tEnd := if t < c.expiresAt then t else (round codeDF script t 0).1
    Code.MetadataCache_GetMetadata fuel scriptOps c url hcl l (script, t) =
      some (((some ⟨r.1.doc⟩, none), ⟨some ⟨r.1.doc⟩, r.1.expires⟩), (r.2.1, tEnd)) :=
  GetMetadata_refines url hcl l c d0 hc script t fuel hf hlen hd

open Oidc.Generated Oidc.CodeRefine in
/-- the first load (nothing cached): the document of a healthy round, cached for one hour from the end of the round; after a failed
    round an error and a still empty cache — so the caller's retry loop (`initializeMetadata`, the model's `initRun`) starts the
    next round from the same state -/
theorem code_GetMetadata_first_load (url : Go.Str) (hcl : Go.HTTPClient) (l : Go.Logger) (c : Go.MetaCache)
    (hc : c.metadata = none) (script : List (Outcome Nat)) (t : Int) (fuel : Nat) (hf : 6 ≤ fuel) (hlen : 5 ≤ script.length)
    (hd : ∀ o ∈ script, 0 ≤ durOf o ∧ durOf o ≤ 15000000000) :
    let r := round codeDF script t 0
    ∃ res, Code.MetadataCache_GetMetadata fuel scriptOps c url hcl l (script, t) = some (res, (r.2.2.1, r.1)) ∧
      match r.2.1 with
      | some d => res = ((some ⟨d⟩, none), ⟨some ⟨d⟩, r.1 + Go.Hour⟩)
      | none => res.1.1 = none ∧ res.1.2.isSome = true ∧ res.2 = c :=
  GetMetadata_first url hcl l c hc script t fuel hf hlen hd

open Oidc.Generated Oidc.CodeRefine in
/-- the cache's own five-minute clean-up (`MetadataCache.Cleanup` as translated) drops a document only once it has expired, so it
    never changes whether a later `GetMetadata` is answered from the cache -/
theorem code_MetadataCache_Cleanup_transparent (now later : Int) (c : Go.MetaCache) (h : now ≤ later) :
    Code.MetadataCache_isCacheValid later (Code.MetadataCache_Cleanup now c) = Code.MetadataCache_isCacheValid later c :=
  Cleanup_transparent now later c h

/-- a cache state and a script meeting the hypotheses: a document that expired, five failing answers of 2 s each -/
example : let script : List (Outcome Nat) := [.fail 2000000000, .fail 2000000000, .fail 2000000000, .fail 2000000000, .fail 2000000000]
    (5 ≤ script.length) ∧ (∀ o ∈ script, 0 ≤ Oidc.CodeRefine.durOf o ∧ Oidc.CodeRefine.durOf o ≤ 15000000000) ∧
    (refreshTick Oidc.CodeRefine.codeDF Go.Hour (5 * Go.Minute) ⟨7, 100⟩ 200 script).1.doc = 7 := by
  refine ⟨by decide, ?_, by decide⟩
  intro o ho
  simp only [List.mem_cons, List.mem_nil_iff, or_false] at ho
  rcases ho with h | h | h | h | h <;> subst h <;> decide

end Oidc.Props.C20
