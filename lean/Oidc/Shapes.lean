import Oidc.Generated.Facts
/-! # The shapes of the handler's decision functions the model was written against (pinned by lib/pin_shapes.py)

`Oidc.Generated.skel_<f>` is regenerated from /repo on every run: the steps of function `f` in order — guards (normalised
text), calls on the instance, the session, the request headers and net/http with their literal arguments and status codes, and
the returns.  `Oidc.Handler` follows these steps statement by statement (`serveV`, `handleCallback`, `authorized`, `classify`,
`refreshFlow`, `handleLogout`, `initiate`, the expired branch).  `Shape_<f>` says that the function still has the shape the
model was written against; the property files carry it as a proof obligation (`rfl`), so a reordered, added or dropped step, a
changed guard, status code or literal breaks the obligation of every property whose theorems rest on that function. -/
namespace Oidc.Shapes
open Oidc.Generated

def expected_ServeHTTP : List String := ["select[<-t.initComplete{if t.issuerURL == \"\"{Error(_,\"OIDC provider metadata initialization f…#9193bf31,StatusServiceUnavailable);return}} | <-req.Context().Done(){Error(_,\"Request cancelled\",StatusRequestTimeout);return} | <-time.After(30 * time.Second){Error(_,\"Timeout waiting for OIDC provider initi…#4973b9c4,StatusServiceUnavailable);return}]", "if t.determineExcludedURL(req.URL.Path){ServeHTTP(_,_);return}", "GetSession(_)", "if err != nil{GetSession(_);if session != nil{Clear(_,_);if clearErr != nil{}} else{Error(_,\"Critical session error\",StatusInternalServerError);return};determineScheme(_);determineHost(_);buildFullURL;defaultInitiateAuthentication(_,_,_,_);return}", "determineScheme(_)", "determineHost(_)", "buildFullURL", "if req.URL.Path == t.logoutURLPath{handleLogout(_,_);return}", "if req.URL.Path == t.redirURLPath{handleCallback(_,_,_);return}", "isUserAuthenticated(_)", "if expired{handleExpiredToken(_,_,_,_);return}", "if authenticated && !needsRefresh{processAuthorizedRequest(_,_,_,_);return}", "GetRefreshToken()", "if shouldAttemptRefresh{refreshToken(_,_,_);if refreshed{processAuthorizedRequest(_,_,_,_);return};Get(\"Accept\");if strings.Contains(acceptHeader, \"application/json\"){Set(\"Content-Type\",\"application/json\");Header();WriteHeader(StatusUnauthorized);Encode(_);NewEncoder(_)} else{defaultInitiateAuthentication(_,_,_,_)};return}", "defaultInitiateAuthentication(_,_,_,_)"]
def Shape_ServeHTTP : Prop := skel_ServeHTTP = expected_ServeHTTP

def expected_handleCallback : List String := ["GetSession(_)", "if err != nil{Error(_,\"Session error during callback\",StatusInternalServerError);return}", "if req.URL.Query().Get(\"error\") != \"\"{sendErrorResponse(_,_,_,StatusBadRequest);Sprintf(\"Authentication error from provider: %s\",_);return}", "if state == \"\"{sendErrorResponse(_,_,\"State parameter missing in callback\",StatusBadRequest);return}", "GetCSRF()", "if csrfToken == \"\"{sendErrorResponse(_,_,\"CSRF token missing in session\",StatusBadRequest);return}", "if state != csrfToken{sendErrorResponse(_,_,\"Invalid state parameter (CSRF mismatch)\",StatusBadRequest);return}", "if code == \"\"{sendErrorResponse(_,_,\"No authorization code received in callback\",StatusBadRequest);return}", "GetCodeVerifier()", "ExchangeCodeForToken(_,\"authorization_code\",_,_,_)", "if err != nil{sendErrorResponse(_,_,\"Authentication failed: Could not exchange code for token\",_);return}", "VerifyToken(_);if err != nil{sendErrorResponse(_,_,\"Authentication failed: Could not verify ID token\",StatusInternalServerError);return}", "extractClaimsFunc(_)", "if err != nil{sendErrorResponse(_,_,\"Authentication failed: Could not extract claims from token\",StatusInternalServerError);return}", "if !ok || nonceClaim == \"\"{sendErrorResponse(_,_,\"Authentication failed: Nonce missing in token\",StatusInternalServerError);return}", "GetNonce()", "if sessionNonce == \"\"{sendErrorResponse(_,_,\"Authentication failed: Nonce missing in session\",StatusInternalServerError);return}", "if nonceClaim != sessionNonce{sendErrorResponse(_,_,\"Authentication failed: Nonce mismatch\",StatusInternalServerError);return}", "if email == \"\"{sendErrorResponse(_,_,\"Authentication failed: Email missing in token\",StatusInternalServerError);return}", "if !t.isAllowedDomain(email){sendErrorResponse(_,_,\"Authentication failed: Email domain not allowed\",StatusForbidden);return}", "SetAuthenticated(true);if err != nil{Error(_,\"Failed to update session\",StatusInternalServerError);return}", "SetEmail(_)", "SetAccessToken(_)", "SetRefreshToken(_)", "SetCSRF(\"\")", "SetNonce(\"\")", "SetCodeVerifier(\"\")", "GetIncomingPath();if incomingPath != \"\" && incomingPath != t.redirURLPath && isLocalRedirectTarget(incomingPath){}", "SetIncomingPath(\"\")", "Save(_,_);if err != nil{Error(_,\"Failed to save session after callback\",StatusInternalServerError);return}", "Redirect(_,_,_,StatusFound)"]
def Shape_handleCallback : Prop := skel_handleCallback = expected_handleCallback

def expected_processAuthorizedRequest : List String := ["GetEmail()", "if email == \"\"{defaultInitiateAuthentication(_,_,_,_);return}", "if !t.isAllowedDomain(email){Sprintf(\"Access denied: Your email domain is not…#65031552,_);sendErrorResponse(_,_,_,StatusForbidden);return}", "range []string{\"X-Forwarded-User\", \"X-Auth-Request-User\", \"X-Auth-Request-Token\", \"X-User-Groups\", \"X-User-Roles\"}{Del(_)}", "range t.headerTemplates{Del(_)}", "extractGroupsAndRoles(_)", "GetAccessToken()", "if err != nil{} else{if len(groups) > 0{Set(\"X-User-Groups\",_)};if len(roles) > 0{Set(\"X-User-Roles\",_)}}", "if len(t.allowedRolesAndGroups) > 0{range append(groups, roles...){};if !allowed{Sprintf(\"Access denied: You do not have any of t…#17848e45,_);sendErrorResponse(_,_,_,StatusForbidden);return}}", "Set(\"X-Forwarded-User\",_)", "Set(\"X-Auth-Request-Redirect\",_)", "Set(\"X-Auth-Request-User\",_)", "GetAccessToken();if idToken != \"\"{Set(\"X-Auth-Request-Token\",_)}", "if len(t.headerTemplates) > 0{GetAccessToken();GetRefreshToken();extractClaimsFunc(_);if err != nil{} else{range t.headerTemplates{Set(_,_)}}}", "Set(\"X-Frame-Options\",\"DENY\")", "Header()", "Set(\"X-Content-Type-Options\",\"nosniff\")", "Header()", "Set(\"X-XSS-Protection\",\"1; mode=block\")", "Header()", "Set(\"Referrer-Policy\",\"strict-origin-when-cross-origin\")", "Header()", "Get(\"Origin\")", "if origin != \"\"{Set(\"Access-Control-Allow-Origin\",_);Header();Set(\"Access-Control-Allow-Credentials\",\"true\");Header();Set(\"Access-Control-Allow-Methods\",\"GET, POST, OPTIONS\");Header();Set(\"Access-Control-Allow-Headers\",\"Authorization, Content-Type\");Header();if req.Method == \"OPTIONS\"{WriteHeader(StatusOK);return}}", "ServeHTTP(_,_)"]
def Shape_processAuthorizedRequest : Prop := skel_processAuthorizedRequest = expected_processAuthorizedRequest

def expected_isUserAuthenticated : List String := ["if !session.GetAuthenticated(){if session.GetRefreshToken() != \"\"{return false, true, false};return false, false, false}", "GetAccessToken()", "if accessToken == \"\"{if session.GetRefreshToken() != \"\"{return false, true, false};return false, false, true}", "if err != nil{if session.GetRefreshToken() != \"\"{return false, true, false};return false, false, true}", "VerifyJWTSignatureAndClaims(_,_);if err != nil{if strings.Contains(err.Error(), \"token has expired\"){if session.GetRefreshToken() != \"\"{return false, true, false};return false, false, true};if session.GetRefreshToken() != \"\"{return false, true, false};return false, false, true}", "if !ok{if session.GetRefreshToken() != \"\"{return false, true, false};return false, false, true}", "if time.Unix(expTime, 0).Before(time.Now().Add(t.refreshGracePeriod)){if session.GetRefreshToken() != \"\"{return true, true, false};return true, false, false}", "return true, false, false"]
def Shape_isUserAuthenticated : Prop := skel_isUserAuthenticated = expected_isUserAuthenticated

def expected_refreshToken : List String := ["Lock()", "GetRefreshToken()", "if initialRefreshToken == \"\"{return false}", "GetNewTokenWithRefreshToken(_)", "if err != nil{if strings.Contains(errMsg, \"invalid_grant\") || strings.Contains(errMsg, \"token expired\"){SetRefreshToken(\"\");Save(_,_);if err != nil{}};return false}", "if newToken.IDToken == \"\"{return false}", "verifyToken(_);if err != nil{return false}", "GetRefreshToken()", "if initialRefreshToken != currentRefreshToken{return false}", "extractClaimsFunc(_)", "if err != nil{return false}", "if email == \"\"{return false}", "SetEmail(_)", "SetAccessToken(_)", "if newToken.RefreshToken != \"\"{SetRefreshToken(_)} else{SetRefreshToken(_)}", "SetAuthenticated(true);if err != nil{}", "Save(_,_);if err != nil{return false}", "return true"]
def Shape_refreshToken : Prop := skel_refreshToken = expected_refreshToken

def expected_handleLogout : List String := ["GetSession(_)", "if err != nil{Error(_,\"Session error\",StatusInternalServerError);return}", "GetAccessToken()", "Clear(_,_);if err != nil{Error(_,\"Session error\",StatusInternalServerError);return}", "determineHost(_)", "determineScheme(_)", "Sprintf(\"%s://%s\",_,_)", "if postLogoutRedirectURI == \"\"{Sprintf(\"%s/\",_)} else if !strings.HasPrefix(postLogoutRedirectURI, \"http\"){Sprintf(\"%s%s\",_,_)}", "if t.endSessionURL != \"\" && accessToken != \"\"{if err != nil{Error(_,\"Logout error\",StatusInternalServerError);return};Redirect(_,_,_,StatusFound);return}", "Redirect(_,_,_,StatusFound)"]
def Shape_handleLogout : Prop := skel_handleLogout = expected_handleLogout

def expected_defaultInitiateAuthentication : List String := ["if err != nil{Error(_,\"Failed to generate nonce\",StatusInternalServerError);return}", "if t.enablePKCE{if err != nil{Error(_,\"Failed to generate code verifier\",StatusInternalServerError);return}}", "Clear(_,_);if err != nil{}", "SetCSRF(_)", "SetNonce(_)", "if t.enablePKCE{SetCodeVerifier(_)}", "if !isLocalRedirectTarget(incomingPath) || len(incomingPath) > maxIncomingPathLength{}", "SetIncomingPath(_)", "Save(_,_);if err != nil{Error(_,\"Failed to save session\",StatusInternalServerError);return}", "buildAuthURL(_,_,_,_)", "Redirect(_,_,_,StatusFound)"]
def Shape_defaultInitiateAuthentication : Prop := skel_defaultInitiateAuthentication = expected_defaultInitiateAuthentication

def expected_handleExpiredToken : List String := ["SetAuthenticated(false)", "SetAccessToken(\"\")", "SetRefreshToken(\"\")", "SetEmail(\"\")", "Save(_,_);if err != nil{}", "defaultInitiateAuthentication(_,_,_,_)"]
def Shape_handleExpiredToken : Prop := skel_handleExpiredToken = expected_handleExpiredToken

def expected_sendErrorResponse : List String := ["Get(\"Accept\")", "if strings.Contains(acceptHeader, \"application/json\"){Set(\"Content-Type\",\"application/json\");Header();WriteHeader(_);Encode(_);NewEncoder(_);StatusText(_);return}", "Sprintf(`\n<!DOCTYPE html>\n<html>\n<head>\n    <tit…#3509fa39,_,_)", "EscapeString(_)", "Set(\"Content-Type\",\"text/html; charset=utf-8\")", "Header()", "WriteHeader(_)", "Write(_)"]
def Shape_sendErrorResponse : Prop := skel_sendErrorResponse = expected_sendErrorResponse

def expected_determineScheme : List String := ["Get(\"X-Forwarded-Proto\");if scheme != \"\"{return scheme}", "if req.TLS != nil{return \"https\"}", "return \"http\""]
def Shape_determineScheme : Prop := skel_determineScheme = expected_determineScheme

def expected_determineHost : List String := ["Get(\"X-Forwarded-Host\");if host != \"\"{return host}", "return req.Host"]
def Shape_determineHost : Prop := skel_determineHost = expected_determineHost

def expectedText_Cache_Set : List String := ["c.mutex.Lock()", "defer c.mutex.Unlock()", "now := time.Now()", "expTime := now.Add(expiration)", "if _, exists := c.items[key]; exists { c.items[key] = CacheItem{ Value: value, ExpiresAt: expTime, } if elem, ok := c.elems[key]; ok { c.order.MoveToBack(elem) } return }", "if len(c.items) >= c.maxSize { c.evictOldest() }", "c.items[key] = CacheItem{ Value: value, ExpiresAt: expTime, }", "elem := c.order.PushBack(lruEntry{key: key})", "c.elems[key] = elem"]
def Text_Cache_Set : Prop := text_Cache_Set = expectedText_Cache_Set

def expectedText_Cache_Get : List String := ["c.mutex.Lock()", "defer c.mutex.Unlock()", "item, exists := c.items[key]", "if !exists { return nil, false }", "if !time.Now().Before(item.ExpiresAt) { c.removeItem(key) return nil, false }", "if elem, ok := c.elems[key]; ok { c.order.MoveToBack(elem) }", "return item.Value, true"]
def Text_Cache_Get : Prop := text_Cache_Get = expectedText_Cache_Get

def expectedText_Cache_Delete : List String := ["c.mutex.Lock()", "defer c.mutex.Unlock()", "c.removeItem(key)"]
def Text_Cache_Delete : Prop := text_Cache_Delete = expectedText_Cache_Delete

def expectedText_Cache_Cleanup : List String := ["c.mutex.Lock()", "defer c.mutex.Unlock()", "now := time.Now()", "for key, item := range c.items { if !now.Before(item.ExpiresAt) || now.Add(time.Duration(float64(item.ExpiresAt.Sub(now))*0.1)).After(item.ExpiresAt) { c.removeItem(key) } }"]
def Text_Cache_Cleanup : Prop := text_Cache_Cleanup = expectedText_Cache_Cleanup

def expectedText_Cache_evictOldest : List String := ["now := time.Now()", "elem := c.order.Front()", "for elem != nil { entry := elem.Value.(lruEntry) if item, exists := c.items[entry.key]; exists { if !now.Before(item.ExpiresAt) { c.removeItem(entry.key) return } } elem = elem.Next() }", "if elem = c.order.Front(); elem != nil { entry := elem.Value.(lruEntry) c.removeItem(entry.key) }"]
def Text_Cache_evictOldest : Prop := text_Cache_evictOldest = expectedText_Cache_evictOldest

def expectedText_Cache_removeItem : List String := ["delete(c.items, key)", "if elem, ok := c.elems[key]; ok { c.order.Remove(elem) delete(c.elems, key) }"]
def Text_Cache_removeItem : Prop := text_Cache_removeItem = expectedText_Cache_removeItem

def expectedText_parseJWT : List String := ["parts := strings.Split(tokenString, \".\")", "if len(parts) != 3 { return nil, fmt.Errorf(\"invalid JWT format: expected 3 parts, got %d\", len(parts)) }", "jwt := &JWT{ Token: tokenString, }", "headerBytes, err := base64.RawURLEncoding.DecodeString(parts[0])", "if err != nil { return nil, fmt.Errorf(\"invalid JWT format: failed to decode header: %v\", err) }", "if err := json.Unmarshal(headerBytes, &jwt.Header); err != nil { return nil, fmt.Errorf(\"invalid JWT format: failed to unmarshal header: %v\", err) }", "claimsBytes, err := base64.RawURLEncoding.DecodeString(parts[1])", "if err != nil { return nil, fmt.Errorf(\"invalid JWT format: failed to decode claims: %v\", err) }", "if err := json.Unmarshal(claimsBytes, &jwt.Claims); err != nil { return nil, fmt.Errorf(\"invalid JWT format: failed to unmarshal claims: %v\", err) }", "signatureBytes, err := base64.RawURLEncoding.DecodeString(parts[2])", "if err != nil { return nil, fmt.Errorf(\"invalid JWT format: failed to decode signature: %v\", err) }", "jwt.Signature = signatureBytes", "return jwt, nil"]
def Text_parseJWT : Prop := text_parseJWT = expectedText_parseJWT

def expectedText_JWT_Verify : List String := ["alg, ok := j.Header[\"alg\"].(string)", "if !ok { return fmt.Errorf(\"missing 'alg' header\") }", "supportedAlgs := map[string]bool{ \"RS256\": true, \"RS384\": true, \"RS512\": true, \"PS256\": true, \"PS384\": true, \"PS512\": true, \"ES256\": true, \"ES384\": true, \"ES512\": true, }", "if !supportedAlgs[alg] { return fmt.Errorf(\"unsupported algorithm: %s\", alg) }", "claims := j.Claims", "iss, ok := claims[\"iss\"].(string)", "if !ok { return fmt.Errorf(\"missing 'iss' claim\") }", "if err := verifyIssuer(iss, issuerURL); err != nil { return err }", "aud, ok := claims[\"aud\"]", "if !ok { return fmt.Errorf(\"missing 'aud' claim\") }", "if err := verifyAudience(aud, clientID); err != nil { return err }", "exp, ok := claims[\"exp\"].(float64)", "if !ok { return fmt.Errorf(\"missing or invalid 'exp' claim\") }", "if err := verifyExpiration(exp); err != nil { return err }", "iat, ok := claims[\"iat\"].(float64)", "if !ok { return fmt.Errorf(\"missing or invalid 'iat' claim\") }", "if err := verifyIssuedAt(iat); err != nil { return err }", "if nbfClaim, present := claims[\"nbf\"]; present { nbf, ok := nbfClaim.(float64) if !ok { return fmt.Errorf(\"invalid 'nbf' claim\") } if err := verifyNotBefore(nbf); err != nil { return err } }", "sub, ok := claims[\"sub\"].(string)", "if !ok || sub == \"\" { return fmt.Errorf(\"missing or empty 'sub' claim\") }", "return nil"]
def Text_JWT_Verify : Prop := text_JWT_Verify = expectedText_JWT_Verify

def expectedText_verifyAudience : List String := ["switch aud := tokenAudience.(type) { case string: if aud != expectedAudience { return fmt.Errorf(\"invalid audience\") } case []interface{}: found := false for _, v := range aud { if str, ok := v.(string); ok && str == expectedAudience { found = true break } } if !found { return fmt.Errorf(\"invalid audience\") } default: return fmt.Errorf(\"invalid 'aud' claim type\") }", "return nil"]
def Text_verifyAudience : Prop := text_verifyAudience = expectedText_verifyAudience

def expectedText_verifyIssuer : List String := ["if tokenIssuer != expectedIssuer { return fmt.Errorf(\"invalid issuer (token: %s, expected: %s)\", tokenIssuer, expectedIssuer) }", "return nil"]
def Text_verifyIssuer : Prop := text_verifyIssuer = expectedText_verifyIssuer

def expectedText_verifyTimeConstraint : List String := ["claimTime := time.Unix(numericDateSeconds(unixTime), 0)", "now := time.Now()", "var err error", "if future { allowedExpiry := claimTime.Add(ClockSkewToleranceFuture) if now.After(allowedExpiry) { err = fmt.Errorf(\"token has expired (exp: %v, now: %v, allowed_until: %v)\", claimTime.UTC(), now.UTC(), allowedExpiry.UTC()) } } else { allowedStart := claimTime.Add(-ClockSkewTolerancePast) if now.Before(allowedStart) { reason := \"not yet valid\" if claimName == \"iat\" { reason = \"used before issued\" } err = fmt.Errorf(\"token %s (%s: %v, now: %v, allowed_from: %v)\", reason, claimName, claimTime.UTC(), now.UTC(), allowedStart.UTC()) } }", "return err"]
def Text_verifyTimeConstraint : Prop := text_verifyTimeConstraint = expectedText_verifyTimeConstraint

def expectedText_verifyExpiration : List String := ["return verifyTimeConstraint(expiration, \"exp\", true)"]
def Text_verifyExpiration : Prop := text_verifyExpiration = expectedText_verifyExpiration

def expectedText_verifyIssuedAt : List String := ["return verifyTimeConstraint(issuedAt, \"iat\", false)"]
def Text_verifyIssuedAt : Prop := text_verifyIssuedAt = expectedText_verifyIssuedAt

def expectedText_verifyNotBefore : List String := ["return verifyTimeConstraint(notBefore, \"nbf\", false)"]
def Text_verifyNotBefore : Prop := text_verifyNotBefore = expectedText_verifyNotBefore

def expectedText_verifySignature : List String := ["parts := strings.Split(tokenString, \".\")", "if len(parts) != 3 { return fmt.Errorf(\"invalid token format\") }", "signedContent := parts[0] + \".\" + parts[1]", "signature, err := base64.RawURLEncoding.DecodeString(parts[2])", "if err != nil { return fmt.Errorf(\"failed to decode signature: %w\", err) }", "block, _ := pem.Decode(publicKeyPEM)", "if block == nil { return fmt.Errorf(\"failed to parse PEM block containing the public key\") }", "pubKey, err := x509.ParsePKIXPublicKey(block.Bytes)", "if err != nil { return fmt.Errorf(\"failed to parse public key: %w\", err) }", "var hashFunc crypto.Hash", "switch alg { case \"RS256\", \"PS256\", \"ES256\": hashFunc = crypto.SHA256 case \"RS384\", \"PS384\", \"ES384\": hashFunc = crypto.SHA384 case \"RS512\", \"PS512\", \"ES512\": hashFunc = crypto.SHA512 default: return fmt.Errorf(\"unsupported algorithm: %s\", alg) }", "h := hashFunc.New()", "h.Write([]byte(signedContent))", "hashed := h.Sum(nil)", "switch pubKey := pubKey.(type) { case *rsa.PublicKey: if strings.HasPrefix(alg, \"RS\") { return rsa.VerifyPKCS1v15(pubKey, hashFunc, hashed, signature) } else if strings.HasPrefix(alg, \"PS\") { return rsa.VerifyPSS(pubKey, hashFunc, hashed, signature, nil) } else { return fmt.Errorf(\"unexpected key type for algorithm %s\", alg) } case *ecdsa.PublicKey: if strings.HasPrefix(alg, \"ES\") { var r, s big.Int sigLen := len(signature) if sigLen != 2*((pubKey.Curve.Params().BitSize+7)/8) { return fmt.Errorf(\"invalid ECDSA signature length\") } r.SetBytes(signature[:sigLen/2]) s.SetBytes(signature[sigLen/2:]) if ecdsa.Verify(pubKey, hashed, &r, &s) { return nil } else { return fmt.Errorf(\"invalid ECDSA signature\") } } else { return fmt.Errorf(\"unexpected key type for algorithm %s\", alg) } default: return fmt.Errorf(\"unsupported public key type: %T\", pubKey) }"]
def Text_verifySignature : Prop := text_verifySignature = expectedText_verifySignature

def expectedText_JWKCache_GetJWKS : List String := ["c.mutex.RLock()", "if c.jwks != nil && time.Now().Before(c.expiresAt) { defer c.mutex.RUnlock() return c.jwks, nil }", "c.mutex.RUnlock()", "c.mutex.Lock()", "defer c.mutex.Unlock()", "if c.jwks != nil && time.Now().Before(c.expiresAt) { return c.jwks, nil }", "jwks, err := fetchJWKS(ctx, jwksURL, httpClient)", "if err != nil { return nil, err }", "c.jwks = jwks", "lifetime := c.CacheLifetime", "if lifetime == 0 { lifetime = 1 * time.Hour }", "c.expiresAt = time.Now().Add(lifetime)", "return jwks, nil"]
def Text_JWKCache_GetJWKS : Prop := text_JWKCache_GetJWKS = expectedText_JWKCache_GetJWKS

def expectedText_JWKCache_Cleanup : List String := ["c.mutex.Lock()", "defer c.mutex.Unlock()", "now := time.Now()", "if c.jwks != nil && now.After(c.expiresAt) { c.jwks = nil }"]
def Text_JWKCache_Cleanup : Prop := text_JWKCache_Cleanup = expectedText_JWKCache_Cleanup

def expectedText_jwkToPEM : List String := ["converter, ok := jwkConverters[jwk.Kty]", "if !ok { return nil, fmt.Errorf(\"unsupported key type: %s\", jwk.Kty) }", "return converter(jwk)"]
def Text_jwkToPEM : Prop := text_jwkToPEM = expectedText_jwkToPEM

def expectedText_TraefikOidc_VerifyJWTSignatureAndClaims : List String := ["jwks, err := t.jwkCache.GetJWKS(context.Background(), t.jwksURL, t.httpClient)", "if err != nil { return fmt.Errorf(\"failed to get JWKS: %w\", err) }", "kid, ok := jwt.Header[\"kid\"].(string)", "if !ok { return fmt.Errorf(\"missing key ID in token header\") }", "alg, ok := jwt.Header[\"alg\"].(string)", "if !ok { return fmt.Errorf(\"missing algorithm in token header\") }", "var matchingKey *JWK", "for _, key := range jwks.Keys { if key.Kid == kid { matchingKey = &key break } }", "if matchingKey == nil { return fmt.Errorf(\"no matching public key found for kid: %s\", kid) }", "publicKeyPEM, err := jwkToPEM(matchingKey)", "if err != nil { return fmt.Errorf(\"failed to convert JWK to PEM: %w\", err) }", "if err := verifySignature(token, publicKeyPEM, alg); err != nil { return fmt.Errorf(\"signature verification failed: %w\", err) }", "if err := jwt.Verify(t.issuerURL, t.clientID); err != nil { return fmt.Errorf(\"standard claim verification failed: %w\", err) }", "return nil"]
def Text_TraefikOidc_VerifyJWTSignatureAndClaims : Prop := text_TraefikOidc_VerifyJWTSignatureAndClaims = expectedText_TraefikOidc_VerifyJWTSignatureAndClaims

def expectedText_TraefikOidc_VerifyToken : List String := ["if claims, exists := t.tokenCache.Get(token); exists && len(claims) > 0 { return nil }", "if err := t.performPreVerificationChecks(token); err != nil { return err }", "jwt, err := parseJWT(token)", "if err != nil { return fmt.Errorf(\"failed to parse JWT: %w\", err) }", "if err := t.VerifyJWTSignatureAndClaims(jwt, token); err != nil { return err }", "t.cacheVerifiedToken(token, jwt.Claims)", "if jti, ok := jwt.Claims[\"jti\"].(string); ok && jti != \"\" { expiry := time.Now().Add(defaultBlacklistDuration) if expClaim, expOk := jwt.Claims[\"exp\"].(float64); expOk { expTime := time.Unix(int64(expClaim), 0) tokenDuration := time.Until(expTime) if tokenDuration > defaultBlacklistDuration && tokenDuration < (24*time.Hour) { expiry = expTime } else if tokenDuration <= 0 { expiry = time.Now().Add(defaultBlacklistDuration) } else { expiry = time.Now().Add(defaultBlacklistDuration) } } t.tokenBlacklist.Set(jti, true, time.Until(expiry)) }", "return nil"]
def Text_TraefikOidc_VerifyToken : Prop := text_TraefikOidc_VerifyToken = expectedText_TraefikOidc_VerifyToken

def expectedText_TraefikOidc_performPreVerificationChecks : List String := ["if !t.limiter.Allow() { return fmt.Errorf(\"rate limit exceeded\") }", "if _, exists := t.tokenBlacklist.Get(token); exists { return fmt.Errorf(\"token is blacklisted (raw string) in cache\") }", "claims, err := extractClaims(token)", "if err == nil { if jti, ok := claims[\"jti\"].(string); ok && jti != \"\" { if _, exists := t.tokenBlacklist.Get(jti); exists { return fmt.Errorf(\"token replay detected (jti: %s) in cache\", jti) } } }", "return nil"]
def Text_TraefikOidc_performPreVerificationChecks : Prop := text_TraefikOidc_performPreVerificationChecks = expectedText_TraefikOidc_performPreVerificationChecks

def expectedText_TraefikOidc_RevokeToken : List String := ["t.tokenCache.Delete(token)", "expiry := time.Now().Add(24 * time.Hour)", "if claims, err := extractClaims(token); err == nil { if expClaim, ok := claims[\"exp\"].(float64); ok { if tokenEnd := time.Unix(int64(expClaim), 0).Add(ClockSkewToleranceFuture); tokenEnd.After(expiry) { expiry = tokenEnd } } }", "t.tokenBlacklist.Set(token, true, time.Until(expiry))"]
def Text_TraefikOidc_RevokeToken : Prop := text_TraefikOidc_RevokeToken = expectedText_TraefikOidc_RevokeToken

def expectedText_TraefikOidc_cacheVerifiedToken : List String := ["expirationTime := time.Unix(int64(claims[\"exp\"].(float64)), 0)", "now := time.Now()", "duration := expirationTime.Sub(now)", "t.tokenCache.Set(token, claims, duration)"]
def Text_TraefikOidc_cacheVerifiedToken : Prop := text_TraefikOidc_cacheVerifiedToken = expectedText_TraefikOidc_cacheVerifiedToken

def expectedText_TokenCache_Set : List String := ["token = \"t-\" + token", "tc.cache.Set(token, claims, expiration)"]
def Text_TokenCache_Set : Prop := text_TokenCache_Set = expectedText_TokenCache_Set

def expectedText_TokenCache_Get : List String := ["token = \"t-\" + token", "value, found := tc.cache.Get(token)", "if !found { return nil, false }", "claims, ok := value.(map[string]interface{})", "return claims, ok"]
def Text_TokenCache_Get : Prop := text_TokenCache_Get = expectedText_TokenCache_Get

def expectedText_TokenCache_Delete : List String := ["token = \"t-\" + token", "tc.cache.Delete(token)"]
def Text_TokenCache_Delete : Prop := text_TokenCache_Delete = expectedText_TokenCache_Delete

def expectedText_TokenCache_Cleanup : List String := ["tc.cache.Cleanup()"]
def Text_TokenCache_Cleanup : Prop := text_TokenCache_Cleanup = expectedText_TokenCache_Cleanup

def expectedText_extractClaims : List String := ["parts := strings.Split(tokenString, \".\")", "if len(parts) != 3 { return nil, fmt.Errorf(\"invalid token format\") }", "payload, err := base64.RawURLEncoding.DecodeString(parts[1])", "if err != nil { return nil, fmt.Errorf(\"failed to decode token payload: %w\", err) }", "var claims map[string]interface{}", "if err := json.Unmarshal(payload, &claims); err != nil { return nil, fmt.Errorf(\"failed to unmarshal claims: %w\", err) }", "return claims, nil"]
def Text_extractClaims : Prop := text_extractClaims = expectedText_extractClaims

def expectedText_TraefikOidc_initializeMetadata : List String := ["metadata, err := t.metadataCache.GetMetadata(providerURL, t.httpClient, t.logger)", "for err != nil || metadata == nil { time.Sleep(metadataRetryInterval) metadata, err = t.metadataCache.GetMetadata(providerURL, t.httpClient, t.logger) }", "if metadata != nil { t.updateMetadataEndpoints(metadata) go t.startMetadataRefresh(providerURL) close(t.initComplete) return }"]
def Text_TraefikOidc_initializeMetadata : Prop := text_TraefikOidc_initializeMetadata = expectedText_TraefikOidc_initializeMetadata

def expectedText_TraefikOidc_updateMetadataEndpoints : List String := ["t.jwksURL = metadata.JWKSURL", "t.authURL = metadata.AuthURL", "t.tokenURL = metadata.TokenURL", "t.issuerURL = metadata.Issuer", "t.revocationURL = metadata.RevokeURL", "t.endSessionURL = metadata.EndSessionURL"]
def Text_TraefikOidc_updateMetadataEndpoints : Prop := text_TraefikOidc_updateMetadataEndpoints = expectedText_TraefikOidc_updateMetadataEndpoints

def expectedText_TraefikOidc_startMetadataRefresh : List String := ["ticker := time.NewTicker(1 * time.Hour)", "defer ticker.Stop()", "for range ticker.C { metadata, err := t.metadataCache.GetMetadata(providerURL, t.httpClient, t.logger) if err != nil { continue } if metadata != nil { t.updateMetadataEndpoints(metadata) } else { } }"]
def Text_TraefikOidc_startMetadataRefresh : Prop := text_TraefikOidc_startMetadataRefresh = expectedText_TraefikOidc_startMetadataRefresh

def expectedText_discoverProviderMetadata : List String := ["wellKnownURL := strings.TrimSuffix(providerURL, \"/\") + \"/.well-known/openid-configuration\"", "maxRetries := 5", "baseDelay := 1 * time.Second", "maxDelay := 30 * time.Second", "totalTimeout := 5 * time.Minute", "start := time.Now()", "var lastErr error", "for attempt := 0; attempt < maxRetries; attempt++ { if time.Since(start) > totalTimeout { l.Errorf(\"Timeout exceeded while fetching provider metadata\") return nil, fmt.Errorf(\"timeout exceeded while fetching provider metadata: %w\", lastErr) } metadata, err := fetchMetadata(wellKnownURL, httpClient) if err == nil { l.Debug(\"Provider metadata fetched successfully\") return metadata, nil } lastErr = err delay := time.Duration(math.Pow(2, float64(attempt))) * baseDelay if delay > maxDelay { delay = maxDelay } l.Debugf(\"Failed to fetch provider metadata (attempt %d/%d), retrying in %s. Error: %v\", attempt+1, maxRetries, delay, err) time.Sleep(delay) }", "l.Errorf(\"Max retries exceeded while fetching provider metadata\")", "return nil, fmt.Errorf(\"max retries exceeded while fetching provider metadata: %w\", lastErr)"]
def Text_discoverProviderMetadata : Prop := text_discoverProviderMetadata = expectedText_discoverProviderMetadata

def expectedText_fetchMetadata : List String := ["resp, err := httpClient.Get(wellKnownURL)", "if err != nil { return nil, fmt.Errorf(\"failed to fetch provider metadata: %w\", err) }", "if resp == nil { return nil, fmt.Errorf(\"received nil response from provider at %s\", wellKnownURL) }", "defer resp.Body.Close()", "if resp.StatusCode != http.StatusOK { bodyBytes, _ := io.ReadAll(resp.Body) return nil, fmt.Errorf(\"failed to fetch provider metadata from %s: status code %d, body: %s\", wellKnownURL, resp.StatusCode, string(bodyBytes)) }", "var metadata ProviderMetadata", "if err := json.NewDecoder(resp.Body).Decode(&metadata); err != nil { bodyBytes, readErr := io.ReadAll(io.MultiReader(json.NewDecoder(resp.Body).Buffered(), resp.Body)) if readErr != nil { bodyBytes = []byte(fmt.Sprintf(\"(failed to read response body: %v)\", readErr)) } return nil, fmt.Errorf(\"failed to decode provider metadata from %s: %w. Response body: %s\", wellKnownURL, err, string(bodyBytes)) }", "if metadata.Issuer == \"\" || metadata.AuthURL == \"\" || metadata.TokenURL == \"\" || metadata.JWKSURL == \"\" { return nil, fmt.Errorf(\"incomplete provider metadata from %s: issuer, authorization_endpoint, token_endpoint and jwks_uri are required\", wellKnownURL) }", "return &metadata, nil"]
def Text_fetchMetadata : Prop := text_fetchMetadata = expectedText_fetchMetadata

def expectedText_MetadataCache_GetMetadata : List String := ["c.mutex.RLock()", "if c.isCacheValid() { defer c.mutex.RUnlock() return c.metadata, nil }", "c.mutex.RUnlock()", "c.mutex.Lock()", "defer c.mutex.Unlock()", "if c.isCacheValid() { return c.metadata, nil }", "metadata, err := discoverProviderMetadata(providerURL, httpClient, logger)", "if err != nil { if c.metadata != nil { c.expiresAt = time.Now().Add(5 * time.Minute) return c.metadata, nil } return nil, fmt.Errorf(\"failed to fetch provider metadata: %w\", err) }", "c.metadata = metadata", "c.expiresAt = time.Now().Add(1 * time.Hour)", "return metadata, nil"]
def Text_MetadataCache_GetMetadata : Prop := text_MetadataCache_GetMetadata = expectedText_MetadataCache_GetMetadata

def expectedText_MetadataCache_isCacheValid : List String := ["return c.metadata != nil && time.Now().Before(c.expiresAt)"]
def Text_MetadataCache_isCacheValid : Prop := text_MetadataCache_isCacheValid = expectedText_MetadataCache_isCacheValid

def expectedText_MetadataCache_Cleanup : List String := ["c.mutex.Lock()", "defer c.mutex.Unlock()", "now := time.Now()", "if c.metadata != nil && now.After(c.expiresAt) { c.metadata = nil }"]
def Text_MetadataCache_Cleanup : Prop := text_MetadataCache_Cleanup = expectedText_MetadataCache_Cleanup

def expectedText_createDefaultHTTPClient : List String := ["transport := &http.Transport{ Proxy: http.ProxyFromEnvironment, DialContext: func(ctx context.Context, network, addr string) (net.Conn, error) { dialer := &net.Dialer{ Timeout: 15 * time.Second, KeepAlive: 15 * time.Second, } return dialer.DialContext(ctx, network, addr) }, ForceAttemptHTTP2: true, TLSHandshakeTimeout: 5 * time.Second, ExpectContinueTimeout: 0, MaxIdleConns: 30, MaxIdleConnsPerHost: 10, IdleConnTimeout: 30 * time.Second, DisableKeepAlives: false, MaxConnsPerHost: 50, }", "return &http.Client{ Timeout: time.Second * 15, Transport: transport, CheckRedirect: func(req *http.Request, via []*http.Request) error { if len(via) >= 50 { return fmt.Errorf(\"stopped after 50 redirects\") } return nil }, }"]
def Text_createDefaultHTTPClient : Prop := text_createDefaultHTTPClient = expectedText_createDefaultHTTPClient

def expectedText_TraefikOidc_isAllowedDomain : List String := ["if len(t.allowedUserDomains) == 0 { return true }", "parts := strings.Split(email, \"@\")", "if len(parts) != 2 { return false }", "domain := parts[1]", "_, ok := t.allowedUserDomains[domain]", "return ok"]
def Text_TraefikOidc_isAllowedDomain : Prop := text_TraefikOidc_isAllowedDomain = expectedText_TraefikOidc_isAllowedDomain

def expectedText_TraefikOidc_extractGroupsAndRoles : List String := ["claims, err := t.extractClaimsFunc(idToken)", "if err != nil { return nil, nil, fmt.Errorf(\"failed to extract claims: %w\", err) }", "var groups []string", "var roles []string", "if groupsClaim, exists := claims[\"groups\"]; exists { groupsSlice, ok := groupsClaim.([]interface{}) if !ok { return nil, nil, fmt.Errorf(\"groups claim is not an array\") } else { for _, group := range groupsSlice { if groupStr, ok := group.(string); ok { groups = append(groups, groupStr) } else { } } } }", "if rolesClaim, exists := claims[\"roles\"]; exists { rolesSlice, ok := rolesClaim.([]interface{}) if !ok { return nil, nil, fmt.Errorf(\"roles claim is not an array\") } else { for _, role := range rolesSlice { if roleStr, ok := role.(string); ok { roles = append(roles, roleStr) } else { } } } }", "return groups, roles, nil"]
def Text_TraefikOidc_extractGroupsAndRoles : Prop := text_TraefikOidc_extractGroupsAndRoles = expectedText_TraefikOidc_extractGroupsAndRoles

def expectedText_isLocalRedirectTarget : List String := ["if !strings.HasPrefix(target, \"/\") { return false }", "return !strings.HasPrefix(target, \"//\") && !strings.HasPrefix(target, \"/\\\\\")"]
def Text_isLocalRedirectTarget : Prop := text_isLocalRedirectTarget = expectedText_isLocalRedirectTarget

def expectedText_buildFullURL : List String := ["if strings.HasPrefix(path, \"http://\") || strings.HasPrefix(path, \"https://\") { return path }", "if !strings.HasPrefix(path, \"/\") { path = \"/\" + path }", "return fmt.Sprintf(\"%s://%s%s\", scheme, host, path)"]
def Text_buildFullURL : Prop := text_buildFullURL = expectedText_buildFullURL

def expectedText_TraefikOidc_determineExcludedURL : List String := ["for excludedURL := range t.excludedURLs { if strings.HasPrefix(currentRequest, excludedURL) { return true } }", "return false"]
def Text_TraefikOidc_determineExcludedURL : Prop := text_TraefikOidc_determineExcludedURL = expectedText_TraefikOidc_determineExcludedURL

def expectedText_TraefikOidc_buildAuthURL : List String := ["params := url.Values{}", "params.Set(\"client_id\", t.clientID)", "params.Set(\"response_type\", \"code\")", "params.Set(\"redirect_uri\", redirectURL)", "params.Set(\"state\", state)", "params.Set(\"nonce\", nonce)", "if t.enablePKCE && codeChallenge != \"\" { params.Set(\"code_challenge\", codeChallenge) params.Set(\"code_challenge_method\", \"S256\") }", "scopes := make([]string, len(t.scopes))", "copy(scopes, t.scopes)", "isGoogleProvider := strings.Contains(t.issuerURL, \"google\") || strings.Contains(t.issuerURL, \"accounts.google.com\")", "hasOfflineAccess := false", "for _, scope := range scopes { if scope == \"offline_access\" { hasOfflineAccess = true break } }", "if !hasOfflineAccess { scopes = append(scopes, \"offline_access\") }", "if len(scopes) > 0 { params.Set(\"scope\", strings.Join(scopes, \" \")) }", "if isGoogleProvider { params.Set(\"prompt\", \"consent\") }", "return t.buildURLWithParams(t.authURL, params)"]
def Text_TraefikOidc_buildAuthURL : Prop := text_TraefikOidc_buildAuthURL = expectedText_TraefikOidc_buildAuthURL

def expectedText_TraefikOidc_buildURLWithParams : List String := ["if !strings.HasPrefix(baseURL, \"http://\") && !strings.HasPrefix(baseURL, \"https://\") { issuerURLParsed, err := url.Parse(t.issuerURL) if err == nil { baseURLParsed, err := url.Parse(baseURL) if err == nil { resolvedURL := issuerURLParsed.ResolveReference(baseURLParsed) resolvedURL.RawQuery = params.Encode() return resolvedURL.String() } } return baseURL + \"?\" + params.Encode() }", "u, err := url.Parse(baseURL)", "if err != nil { return baseURL + \"?\" + params.Encode() }", "u.RawQuery = params.Encode()", "return u.String()"]
def Text_TraefikOidc_buildURLWithParams : Prop := text_TraefikOidc_buildURLWithParams = expectedText_TraefikOidc_buildURLWithParams

def expectedText_BuildLogoutURL : List String := ["u, err := url.Parse(endSessionURL)", "if err != nil { return \"\", fmt.Errorf(\"failed to parse end session URL: %w\", err) }", "q := u.Query()", "q.Set(\"id_token_hint\", idToken)", "if postLogoutRedirectURI != \"\" { q.Set(\"post_logout_redirect_uri\", postLogoutRedirectURI) }", "u.RawQuery = q.Encode()", "return u.String(), nil"]
def Text_BuildLogoutURL : Prop := text_BuildLogoutURL = expectedText_BuildLogoutURL

def expectedText_New : List String := ["if config == nil { config = CreateConfig() }", "if config.SessionEncryptionKey == \"\" { config.SessionEncryptionKey = \"0123456789abcdef0123456789abcdef0123456789abcdef0123456789abcdef\" }", "logger := NewLogger(config.LogLevel)", "if len(config.SessionEncryptionKey) < minEncryptionKeyLength { if runtime.Compiler == \"yaegi\" { config.SessionEncryptionKey = \"0123456789abcdef0123456789abcdef0123456789abcdef0123456789abcdef\" } else { return nil, fmt.Errorf(\"encryption key must be at least %d bytes long\", minEncryptionKeyLength) } }", "var httpClient *http.Client", "if config.HTTPClient != nil { httpClient = config.HTTPClient } else { httpClient = createDefaultHTTPClient() }", "t := &TraefikOidc{ next: next, name: name, redirURLPath: config.CallbackURL, logoutURLPath: func() string { if config.LogoutURL == \"\" { return config.CallbackURL + \"/logout\" } return config.LogoutURL }(), postLogoutRedirectURI: func() string { if config.PostLogoutRedirectURI == \"\" { return \"/\" } return config.PostLogoutRedirectURI }(), tokenBlacklist: NewCache(), jwkCache: &JWKCache{}, metadataCache: NewMetadataCache(), clientID: config.ClientID, clientSecret: config.ClientSecret, forceHTTPS: config.ForceHTTPS, enablePKCE: config.EnablePKCE, scopes: config.Scopes, limiter: rate.NewLimiter(rate.Limit(config.RateLimit), config.RateLimit), tokenCache: NewTokenCache(), httpClient: httpClient, excludedURLs: createStringMap(config.ExcludedURLs), allowedUserDomains: createStringMap(config.AllowedUserDomains), allowedRolesAndGroups: createStringMap(config.AllowedRolesAndGroups), initComplete: make(chan struct{}), logger: logger, refreshGracePeriod: func() time.Duration { if config.RefreshGracePeriodSeconds > 0 { return time.Duration(config.RefreshGracePeriodSeconds) * time.Second } return 60 * time.Second }(), }", "t.sessionManager, _ = NewSessionManager(config.SessionEncryptionKey, config.ForceHTTPS, t.logger)", "t.extractClaimsFunc = extractClaims", "t.initiateAuthenticationFunc = func(rw http.ResponseWriter, req *http.Request, session *SessionData, redirectURL string) { t.defaultInitiateAuthentication(rw, req, session, redirectURL) }", "for k, v := range defaultExcludedURLs { t.excludedURLs[k] = v }", "t.tokenVerifier = t", "t.jwtVerifier = t", "t.startTokenCleanup()", "t.tokenExchanger = t", "t.headerTemplates = make(map[string]*template.Template)", "for _, header := range config.Headers { tmpl, err := template.New(header.Name).Parse(header.Value) if err != nil { t.headerTemplates[header.Name] = nil continue } t.headerTemplates[header.Name] = tmpl }", "go t.initializeMetadata(config.ProviderURL)", "return t, nil"]
def Text_New : Prop := text_New = expectedText_New

def expectedText_compressToken : List String := ["var b bytes.Buffer", "gz := gzip.NewWriter(&b)", "if _, err := gz.Write([]byte(token)); err != nil { return token }", "if err := gz.Close(); err != nil { return token }", "return base64.StdEncoding.EncodeToString(b.Bytes())"]
def Text_compressToken : Prop := text_compressToken = expectedText_compressToken

def expectedText_decompressToken : List String := ["data, err := base64.StdEncoding.DecodeString(compressed)", "if err != nil { return compressed }", "gz, err := gzip.NewReader(bytes.NewReader(data))", "if err != nil { return compressed }", "defer gz.Close()", "decompressed, err := io.ReadAll(gz)", "if err != nil { return compressed }", "return string(decompressed)"]
def Text_decompressToken : Prop := text_decompressToken = expectedText_decompressToken

def expectedText_deriveBlockKey : List String := ["sum := sha256.Sum256([]byte(\"traefikoidc-cookie-encryption:\" + encryptionKey))", "return sum[:]"]
def Text_deriveBlockKey : Prop := text_deriveBlockKey = expectedText_deriveBlockKey

def expectedText_NewSessionManager : List String := ["if len(encryptionKey) < minEncryptionKeyLength { return nil, fmt.Errorf(\"encryption key must be at least %d bytes long\", minEncryptionKeyLength) }", "store := sessions.NewCookieStore([]byte(encryptionKey), deriveBlockKey(encryptionKey))", "for _, codec := range store.Codecs { if sc, ok := codec.(*securecookie.SecureCookie); ok { sc.MaxLength(maxCookieValueLength) } }", "sm := &SessionManager{ store: store, forceHTTPS: forceHTTPS, logger: logger, }", "sm.sessionPool.New = func() interface{} { return &SessionData{ manager: sm, accessTokenChunks: make(map[int]*sessions.Session), refreshTokenChunks: make(map[int]*sessions.Session), refreshMutex: sync.Mutex{}, } }", "return sm, nil"]
def Text_NewSessionManager : Prop := text_NewSessionManager = expectedText_NewSessionManager

def expectedText_SessionManager_getSessionOptions : List String := ["return &sessions.Options{ HttpOnly: true, Secure: isSecure || sm.forceHTTPS, SameSite: http.SameSiteLaxMode, MaxAge: int(absoluteSessionTimeout.Seconds()), Path: \"/\", }"]
def Text_SessionManager_getSessionOptions : Prop := text_SessionManager_getSessionOptions = expectedText_SessionManager_getSessionOptions

def expectedText_SessionManager_GetSession : List String := ["sessionData := sm.sessionPool.Get().(*SessionData)", "sessionData.request = r", "var err error", "sessionData.mainSession, err = sm.store.Get(r, mainCookieName)", "if sessionData.mainSession == nil { sm.sessionPool.Put(sessionData) return nil, fmt.Errorf(\"failed to get main session: %w\", err) }", "sessionData.accessSession, err = sm.store.Get(r, accessTokenCookie)", "if sessionData.accessSession == nil { sm.sessionPool.Put(sessionData) return nil, fmt.Errorf(\"failed to get access token session: %w\", err) }", "sessionData.refreshSession, err = sm.store.Get(r, refreshTokenCookie)", "if sessionData.refreshSession == nil { sm.sessionPool.Put(sessionData) return nil, fmt.Errorf(\"failed to get refresh token session: %w\", err) }", "for k := range sessionData.accessTokenChunks { delete(sessionData.accessTokenChunks, k) }", "for k := range sessionData.refreshTokenChunks { delete(sessionData.refreshTokenChunks, k) }", "sm.getTokenChunkSessions(r, accessTokenCookie, sessionData.accessTokenChunks)", "sm.getTokenChunkSessions(r, refreshTokenCookie, sessionData.refreshTokenChunks)", "if createdAt, ok := sessionData.mainSession.Values[\"created_at\"].(int64); ok { if time.Since(time.Unix(createdAt, 0)) > absoluteSessionTimeout { sessionData.Clear(r, nil) } }", "return sessionData, nil"]
def Text_SessionManager_GetSession : Prop := text_SessionManager_GetSession = expectedText_SessionManager_GetSession

def expectedText_SessionManager_getTokenChunkSessions : List String := ["for i := 0; ; i++ { sessionName := fmt.Sprintf(\"%s_%d\", baseName, i) session, err := sm.store.Get(r, sessionName) if err != nil || session.IsNew { break } chunks[i] = session }"]
def Text_SessionManager_getTokenChunkSessions : Prop := text_SessionManager_getTokenChunkSessions = expectedText_SessionManager_getTokenChunkSessions

def expectedText_SessionData_Save : List String := ["isSecure := strings.HasPrefix(r.URL.Scheme, \"https\") || sd.manager.forceHTTPS", "options := sd.manager.getSessionOptions(isSecure)", "sd.mainSession.Options = options", "sd.accessSession.Options = options", "sd.refreshSession.Options = options", "if err := sd.mainSession.Save(r, w); err != nil { return fmt.Errorf(\"failed to save main session: %w\", err) }", "if err := sd.accessSession.Save(r, w); err != nil { return fmt.Errorf(\"failed to save access token session: %w\", err) }", "if err := sd.refreshSession.Save(r, w); err != nil { return fmt.Errorf(\"failed to save refresh token session: %w\", err) }", "for _, session := range sd.accessTokenChunks { session.Options = options if err := session.Save(r, w); err != nil { return fmt.Errorf(\"failed to save access token chunk session: %w\", err) } }", "for _, session := range sd.refreshTokenChunks { session.Options = options if err := session.Save(r, w); err != nil { return fmt.Errorf(\"failed to save refresh token chunk session: %w\", err) } }", "sd.deleteStaleChunkCookies(r, w, accessTokenCookie, len(sd.accessTokenChunks), options)", "sd.deleteStaleChunkCookies(r, w, refreshTokenCookie, len(sd.refreshTokenChunks), options)", "return nil"]
def Text_SessionData_Save : Prop := text_SessionData_Save = expectedText_SessionData_Save

def expectedText_SessionData_deleteStaleChunkCookies : List String := ["prefix := baseName + \"_\"", "var names []string", "for _, c := range r.Cookies() { names = append(names, c.Name) }", "for _, line := range w.Header()[\"Set-Cookie\"] { if i := strings.IndexByte(line, '='); i > 0 { names = append(names, line[:i]) } }", "seen := make(map[string]struct{})", "for _, name := range names { if !strings.HasPrefix(name, prefix) { continue } if _, dup := seen[name]; dup { continue } seen[name] = struct{}{} index, err := strconv.Atoi(name[len(prefix):]) if err != nil || index < keep { continue } if name != prefix+strconv.Itoa(index) { continue } expired := *options expired.MaxAge = -1 http.SetCookie(w, sessions.NewCookie(name, \"\", &expired)) }"]
def Text_SessionData_deleteStaleChunkCookies : Prop := text_SessionData_deleteStaleChunkCookies = expectedText_SessionData_deleteStaleChunkCookies

def expectedText_SessionData_Clear : List String := ["sd.mainSession.Options.MaxAge = -1", "sd.accessSession.Options.MaxAge = -1", "sd.refreshSession.Options.MaxAge = -1", "for k := range sd.mainSession.Values { delete(sd.mainSession.Values, k) }", "for k := range sd.accessSession.Values { delete(sd.accessSession.Values, k) }", "for k := range sd.refreshSession.Values { delete(sd.refreshSession.Values, k) }", "sd.clearTokenChunks(r, sd.accessTokenChunks)", "sd.clearTokenChunks(r, sd.refreshTokenChunks)", "var err error", "if w != nil { err = sd.Save(r, w) }", "return err"]
def Text_SessionData_Clear : Prop := text_SessionData_Clear = expectedText_SessionData_Clear

def expectedText_SessionData_clearTokenChunks : List String := ["for _, session := range chunks { session.Options.MaxAge = -1 for k := range session.Values { delete(session.Values, k) } }"]
def Text_SessionData_clearTokenChunks : Prop := text_SessionData_clearTokenChunks = expectedText_SessionData_clearTokenChunks

def expectedText_SessionData_GetAccessToken : List String := ["token, _ := sd.accessSession.Values[\"token\"].(string)", "if token != \"\" { compressed, _ := sd.accessSession.Values[\"compressed\"].(bool) if compressed { return decompressToken(token) } return token }", "if len(sd.accessTokenChunks) == 0 { return \"\" }", "var chunks []string", "for i := 0; ; i++ { session, ok := sd.accessTokenChunks[i] if !ok { break } chunk, _ := session.Values[\"token_chunk\"].(string) chunks = append(chunks, chunk) }", "token = strings.Join(chunks, \"\")", "compressed, _ := sd.accessSession.Values[\"compressed\"].(bool)", "if compressed { return decompressToken(token) }", "return token"]
def Text_SessionData_GetAccessToken : Prop := text_SessionData_GetAccessToken = expectedText_SessionData_GetAccessToken

def expectedText_SessionData_SetAccessToken : List String := ["if sd.request != nil { sd.expireAccessTokenChunks(nil) }", "sd.accessTokenChunks = make(map[int]*sessions.Session)", "compressed := compressToken(token)", "if len(compressed) <= maxCookieSize { sd.accessSession.Values[\"token\"] = compressed sd.accessSession.Values[\"compressed\"] = true } else { sd.accessSession.Values[\"token\"] = \"\" sd.accessSession.Values[\"compressed\"] = true chunks := splitIntoChunks(compressed, maxCookieSize) for i, chunk := range chunks { sessionName := fmt.Sprintf(\"%s_%d\", accessTokenCookie, i) session, _ := sd.manager.store.Get(sd.request, sessionName) session.Values[\"token_chunk\"] = chunk sd.accessTokenChunks[i] = session } }"]
def Text_SessionData_SetAccessToken : Prop := text_SessionData_SetAccessToken = expectedText_SessionData_SetAccessToken

def expectedText_SessionData_GetRefreshToken : List String := ["token, _ := sd.refreshSession.Values[\"token\"].(string)", "if token != \"\" { compressed, _ := sd.refreshSession.Values[\"compressed\"].(bool) if compressed { return decompressToken(token) } return token }", "if len(sd.refreshTokenChunks) == 0 { return \"\" }", "var chunks []string", "for i := 0; ; i++ { session, ok := sd.refreshTokenChunks[i] if !ok { break } chunk, _ := session.Values[\"token_chunk\"].(string) chunks = append(chunks, chunk) }", "token = strings.Join(chunks, \"\")", "compressed, _ := sd.refreshSession.Values[\"compressed\"].(bool)", "if compressed { return decompressToken(token) }", "return token"]
def Text_SessionData_GetRefreshToken : Prop := text_SessionData_GetRefreshToken = expectedText_SessionData_GetRefreshToken

def expectedText_SessionData_SetRefreshToken : List String := ["if sd.request != nil { sd.expireRefreshTokenChunks(nil) }", "sd.refreshTokenChunks = make(map[int]*sessions.Session)", "compressed := compressToken(token)", "if len(compressed) <= maxCookieSize { sd.refreshSession.Values[\"token\"] = compressed sd.refreshSession.Values[\"compressed\"] = true } else { sd.refreshSession.Values[\"token\"] = \"\" sd.refreshSession.Values[\"compressed\"] = true chunks := splitIntoChunks(compressed, maxCookieSize) for i, chunk := range chunks { sessionName := fmt.Sprintf(\"%s_%d\", refreshTokenCookie, i) session, _ := sd.manager.store.Get(sd.request, sessionName) session.Values[\"token_chunk\"] = chunk sd.refreshTokenChunks[i] = session } }"]
def Text_SessionData_SetRefreshToken : Prop := text_SessionData_SetRefreshToken = expectedText_SessionData_SetRefreshToken

def expectedText_SessionData_expireAccessTokenChunks : List String := ["for i := 0; ; i++ { sessionName := fmt.Sprintf(\"%s_%d\", accessTokenCookie, i) session, err := sd.manager.store.Get(sd.request, sessionName) if err != nil || session.IsNew { break } session.Options.MaxAge = -1 session.Values = make(map[interface{}]interface{}) if w != nil { if err := session.Save(sd.request, w); err != nil { } } }"]
def Text_SessionData_expireAccessTokenChunks : Prop := text_SessionData_expireAccessTokenChunks = expectedText_SessionData_expireAccessTokenChunks

def expectedText_SessionData_expireRefreshTokenChunks : List String := ["for i := 0; ; i++ { sessionName := fmt.Sprintf(\"%s_%d\", refreshTokenCookie, i) session, err := sd.manager.store.Get(sd.request, sessionName) if err != nil || session.IsNew { break } session.Options.MaxAge = -1 session.Values = make(map[interface{}]interface{}) if w != nil { if err := session.Save(sd.request, w); err != nil { } } }"]
def Text_SessionData_expireRefreshTokenChunks : Prop := text_SessionData_expireRefreshTokenChunks = expectedText_SessionData_expireRefreshTokenChunks

def expectedText_splitIntoChunks : List String := ["var chunks []string", "for len(s) > 0 { if len(s) > chunkSize { chunks = append(chunks, s[:chunkSize]) s = s[chunkSize:] } else { chunks = append(chunks, s) break } }", "return chunks"]
def Text_splitIntoChunks : Prop := text_splitIntoChunks = expectedText_splitIntoChunks

def expectedText_SessionData_GetAuthenticated : List String := ["auth, _ := sd.mainSession.Values[\"authenticated\"].(bool)", "if !auth { return false }", "createdAt, ok := sd.mainSession.Values[\"created_at\"].(int64)", "if !ok { return false }", "return time.Since(time.Unix(createdAt, 0)) <= absoluteSessionTimeout"]
def Text_SessionData_GetAuthenticated : Prop := text_SessionData_GetAuthenticated = expectedText_SessionData_GetAuthenticated

def expectedText_SessionData_SetAuthenticated : List String := ["if value { id, err := generateSecureRandomString(32) if err != nil { return fmt.Errorf(\"failed to generate secure session id: %w\", err) } sd.mainSession.ID = id sd.mainSession.Values[\"created_at\"] = time.Now().Unix() }", "sd.mainSession.Values[\"authenticated\"] = value", "return nil"]
def Text_SessionData_SetAuthenticated : Prop := text_SessionData_SetAuthenticated = expectedText_SessionData_SetAuthenticated

def expectedText_SessionData_GetCSRF : List String := ["csrf, _ := sd.mainSession.Values[\"csrf\"].(string)", "return csrf"]
def Text_SessionData_GetCSRF : Prop := text_SessionData_GetCSRF = expectedText_SessionData_GetCSRF

def expectedText_SessionData_SetCSRF : List String := ["sd.mainSession.Values[\"csrf\"] = token"]
def Text_SessionData_SetCSRF : Prop := text_SessionData_SetCSRF = expectedText_SessionData_SetCSRF

def expectedText_SessionData_GetNonce : List String := ["nonce, _ := sd.mainSession.Values[\"nonce\"].(string)", "return nonce"]
def Text_SessionData_GetNonce : Prop := text_SessionData_GetNonce = expectedText_SessionData_GetNonce

def expectedText_SessionData_SetNonce : List String := ["sd.mainSession.Values[\"nonce\"] = nonce"]
def Text_SessionData_SetNonce : Prop := text_SessionData_SetNonce = expectedText_SessionData_SetNonce

def expectedText_SessionData_GetCodeVerifier : List String := ["codeVerifier, _ := sd.mainSession.Values[\"code_verifier\"].(string)", "return codeVerifier"]
def Text_SessionData_GetCodeVerifier : Prop := text_SessionData_GetCodeVerifier = expectedText_SessionData_GetCodeVerifier

def expectedText_SessionData_SetCodeVerifier : List String := ["sd.mainSession.Values[\"code_verifier\"] = codeVerifier"]
def Text_SessionData_SetCodeVerifier : Prop := text_SessionData_SetCodeVerifier = expectedText_SessionData_SetCodeVerifier

def expectedText_SessionData_GetEmail : List String := ["email, _ := sd.mainSession.Values[\"email\"].(string)", "return email"]
def Text_SessionData_GetEmail : Prop := text_SessionData_GetEmail = expectedText_SessionData_GetEmail

def expectedText_SessionData_SetEmail : List String := ["sd.mainSession.Values[\"email\"] = email"]
def Text_SessionData_SetEmail : Prop := text_SessionData_SetEmail = expectedText_SessionData_SetEmail

def expectedText_SessionData_GetIncomingPath : List String := ["path, _ := sd.mainSession.Values[\"incoming_path\"].(string)", "return path"]
def Text_SessionData_GetIncomingPath : Prop := text_SessionData_GetIncomingPath = expectedText_SessionData_GetIncomingPath

def expectedText_SessionData_SetIncomingPath : List String := ["sd.mainSession.Values[\"incoming_path\"] = path"]
def Text_SessionData_SetIncomingPath : Prop := text_SessionData_SetIncomingPath = expectedText_SessionData_SetIncomingPath

def expectedText_NewCache : List String := ["c := &Cache{ items: make(map[string]CacheItem, DefaultMaxSize), order: list.New(), elems: make(map[string]*list.Element, DefaultMaxSize), maxSize: DefaultMaxSize, autoCleanupInterval: 5 * time.Minute, stopCleanup: make(chan struct{}), }", "go c.startAutoCleanup()", "return c"]
def Text_NewCache : Prop := text_NewCache = expectedText_NewCache

def expectedText_Cache_Close : List String := ["close(c.stopCleanup)"]
def Text_Cache_Close : Prop := text_Cache_Close = expectedText_Cache_Close

def expectedText_Cache_startAutoCleanup : List String := ["autoCleanupRoutine(c.autoCleanupInterval, c.stopCleanup, c.Cleanup)"]
def Text_Cache_startAutoCleanup : Prop := text_Cache_startAutoCleanup = expectedText_Cache_startAutoCleanup

def expectedText_autoCleanupRoutine : List String := ["ticker := time.NewTicker(interval)", "defer ticker.Stop()", "for { select { case <-ticker.C: cleanup() case <-stop: return } }"]
def Text_autoCleanupRoutine : Prop := text_autoCleanupRoutine = expectedText_autoCleanupRoutine

def expectedText_NewTokenCache : List String := ["return &TokenCache{ cache: NewCache(), }"]
def Text_NewTokenCache : Prop := text_NewTokenCache = expectedText_NewTokenCache

def expectedText_NewMetadataCache : List String := ["c := &MetadataCache{ autoCleanupInterval: 5 * time.Minute, stopCleanup: make(chan struct{}), }", "go c.startAutoCleanup()", "return c"]
def Text_NewMetadataCache : Prop := text_NewMetadataCache = expectedText_NewMetadataCache

def expectedText_MetadataCache_Close : List String := ["close(c.stopCleanup)"]
def Text_MetadataCache_Close : Prop := text_MetadataCache_Close = expectedText_MetadataCache_Close

def expectedText_MetadataCache_startAutoCleanup : List String := ["autoCleanupRoutine(c.autoCleanupInterval, c.stopCleanup, c.Cleanup)"]
def Text_MetadataCache_startAutoCleanup : Prop := text_MetadataCache_startAutoCleanup = expectedText_MetadataCache_startAutoCleanup

def expectedText_TraefikOidc_startTokenCleanup : List String := ["ticker := time.NewTicker(1 * time.Minute)", "go func() { defer ticker.Stop() for range ticker.C { t.tokenCache.Cleanup() t.jwkCache.Cleanup() } }()"]
def Text_TraefikOidc_startTokenCleanup : Prop := text_TraefikOidc_startTokenCleanup = expectedText_TraefikOidc_startTokenCleanup

def expectedText_cleanupReplayCache : List String := ["now := time.Now()", "for token, expiry := range replayCache { if expiry.Before(now) { delete(replayCache, token) } }"]
def Text_cleanupReplayCache : Prop := text_cleanupReplayCache = expectedText_cleanupReplayCache

def expectedText_Config_Validate : List String := ["if c.ProviderURL == \"\" { return fmt.Errorf(\"providerURL is required\") }", "if !isValidSecureURL(c.ProviderURL) { return fmt.Errorf(\"providerURL must be a valid HTTPS URL\") }", "if c.CallbackURL == \"\" { return fmt.Errorf(\"callbackURL is required\") }", "if !strings.HasPrefix(c.CallbackURL, \"/\") { return fmt.Errorf(\"callbackURL must start with /\") }", "if c.ClientID == \"\" { return fmt.Errorf(\"clientID is required\") }", "if c.ClientSecret == \"\" { return fmt.Errorf(\"clientSecret is required\") }", "if c.SessionEncryptionKey == \"\" { return fmt.Errorf(\"sessionEncryptionKey is required\") }", "if len(c.SessionEncryptionKey) < MinSessionEncryptionKeyLength { return fmt.Errorf(\"sessionEncryptionKey must be at least %d characters long\", MinSessionEncryptionKeyLength) }", "if c.LogLevel != \"\" && !isValidLogLevel(c.LogLevel) { return fmt.Errorf(\"logLevel must be one of: debug, info, error\") }", "for _, url := range c.ExcludedURLs { if !strings.HasPrefix(url, \"/\") { return fmt.Errorf(\"excluded URL must start with /: %s\", url) } if strings.Contains(url, \"..\") { return fmt.Errorf(\"excluded URL must not contain path traversal: %s\", url) } if strings.Contains(url, \"*\") { return fmt.Errorf(\"excluded URL must not contain wildcards: %s\", url) } }", "if c.RevocationURL != \"\" && !isValidSecureURL(c.RevocationURL) { return fmt.Errorf(\"revocationURL must be a valid HTTPS URL\") }", "if c.OIDCEndSessionURL != \"\" && !isValidSecureURL(c.OIDCEndSessionURL) { return fmt.Errorf(\"oidcEndSessionURL must be a valid HTTPS URL\") }", "if c.PostLogoutRedirectURI != \"\" && c.PostLogoutRedirectURI != \"/\" { if !isValidSecureURL(c.PostLogoutRedirectURI) && !strings.HasPrefix(c.PostLogoutRedirectURI, \"/\") { return fmt.Errorf(\"postLogoutRedirectURI must be either a valid HTTPS URL or start with /\") } }", "if c.RateLimit < MinRateLimit { return fmt.Errorf(\"rateLimit must be at least %d\", MinRateLimit) }", "if c.RefreshGracePeriodSeconds < 0 { return fmt.Errorf(\"refreshGracePeriodSeconds cannot be negative\") }", "for _, header := range c.Headers { if header.Name == \"\" { return fmt.Errorf(\"header name cannot be empty\") } if header.Value == \"\" { return fmt.Errorf(\"header value template cannot be empty\") } if !strings.Contains(header.Value, \"{{\") || !strings.Contains(header.Value, \"}}\") { return fmt.Errorf(\"header value '%s' does not appear to be a valid template (missing {{ }})\", header.Value) } if strings.Contains(header.Value, \"{{.claims\") { return fmt.Errorf(\"header template '%s' appears to use lowercase 'claims' - use '{{.Claims...' instead (case sensitive)\", header.Value) } if strings.Contains(header.Value, \"{{.accessToken\") { return fmt.Errorf(\"header template '%s' appears to use lowercase 'accessToken' - use '{{.AccessToken...' instead (case sensitive)\", header.Value) } if strings.Contains(header.Value, \"{{.idToken\") { return fmt.Errorf(\"header template '%s' appears to use lowercase 'idToken' - use '{{.IdToken...' instead (case sensitive)\", header.Value) } if strings.Contains(header.Value, \"{{.refreshToken\") { return fmt.Errorf(\"header template '%s' appears to use lowercase 'refreshToken' - use '{{.RefreshToken...' instead (case sensitive)\", header.Value) } }", "return nil"]
def Text_Config_Validate : Prop := text_Config_Validate = expectedText_Config_Validate

def expectedText_CreateConfig : List String := ["c := &Config{ Scopes: []string{\"openid\", \"profile\", \"email\"}, LogLevel: DefaultLogLevel, RateLimit: DefaultRateLimit, ForceHTTPS: true, EnablePKCE: false, RefreshGracePeriodSeconds: 60, }", "return c"]
def Text_CreateConfig : Prop := text_CreateConfig = expectedText_CreateConfig

def expectedText_isValidSecureURL : List String := ["u, err := url.Parse(s)", "return err == nil && u.Scheme == \"https\" && u.Host != \"\""]
def Text_isValidSecureURL : Prop := text_isValidSecureURL = expectedText_isValidSecureURL

def expectedText_isValidLogLevel : List String := ["return level == \"debug\" || level == \"info\" || level == \"error\""]
def Text_isValidLogLevel : Prop := text_isValidLogLevel = expectedText_isValidLogLevel

def expectedText_createStringMap : List String := ["result := make(map[string]struct{})", "for _, key := range keys { result[key] = struct{}{} }", "return result"]
def Text_createStringMap : Prop := text_createStringMap = expectedText_createStringMap

def expectedText_TraefikOidc_ExchangeCodeForToken : List String := ["return t.exchangeTokens(ctx, grantType, codeOrToken, redirectURL, codeVerifier)"]
def Text_TraefikOidc_ExchangeCodeForToken : Prop := text_TraefikOidc_ExchangeCodeForToken = expectedText_TraefikOidc_ExchangeCodeForToken

def expectedText_TraefikOidc_GetNewTokenWithRefreshToken : List String := ["return t.getNewTokenWithRefreshToken(refreshToken)"]
def Text_TraefikOidc_GetNewTokenWithRefreshToken : Prop := text_TraefikOidc_GetNewTokenWithRefreshToken = expectedText_TraefikOidc_GetNewTokenWithRefreshToken

def expectedText_TraefikOidc_RevokeTokenWithProvider : List String := ["if t.revocationURL == \"\" { return fmt.Errorf(\"token revocation endpoint is not configured or discovered\") }", "data := url.Values{ \"token\": {token}, \"token_type_hint\": {tokenType}, \"client_id\": {t.clientID}, \"client_secret\": {t.clientSecret}, }", "req, err := http.NewRequestWithContext(context.Background(), \"POST\", t.revocationURL, strings.NewReader(data.Encode()))", "if err != nil { return fmt.Errorf(\"failed to create token revocation request: %w\", err) }", "req.Header.Set(\"Content-Type\", \"application/x-www-form-urlencoded\")", "req.Header.Set(\"Accept\", \"application/json\")", "resp, err := t.httpClient.Do(req)", "if err != nil { return fmt.Errorf(\"failed to send token revocation request: %w\", err) }", "defer resp.Body.Close()", "if resp.StatusCode != http.StatusOK { body, _ := io.ReadAll(resp.Body) return fmt.Errorf(\"token revocation failed with status %d\", resp.StatusCode) }", "return nil"]
def Text_TraefikOidc_RevokeTokenWithProvider : Prop := text_TraefikOidc_RevokeTokenWithProvider = expectedText_TraefikOidc_RevokeTokenWithProvider

def expectedText_TraefikOidc_exchangeCodeForToken : List String := ["ctx := context.Background()", "effectiveCodeVerifier := \"\"", "if t.enablePKCE && codeVerifier != \"\" { effectiveCodeVerifier = codeVerifier }", "tokenResponse, err := t.exchangeTokens(ctx, \"authorization_code\", code, redirectURL, effectiveCodeVerifier)", "if err != nil { return nil, fmt.Errorf(\"failed to exchange code for token: %w\", err) }", "return tokenResponse, nil"]
def Text_TraefikOidc_exchangeCodeForToken : Prop := text_TraefikOidc_exchangeCodeForToken = expectedText_TraefikOidc_exchangeCodeForToken

def expectedText_TraefikOidc_exchangeTokens : List String := ["data := url.Values{ \"grant_type\": {grantType}, \"client_id\": {t.clientID}, \"client_secret\": {t.clientSecret}, }", "if grantType == \"authorization_code\" { data.Set(\"code\", codeOrToken) data.Set(\"redirect_uri\", redirectURL) if codeVerifier != \"\" { data.Set(\"code_verifier\", codeVerifier) } } else if grantType == \"refresh_token\" { data.Set(\"refresh_token\", codeOrToken) }", "jar, _ := cookiejar.New(nil)", "client := &http.Client{ Transport: t.httpClient.Transport, Timeout: t.httpClient.Timeout, CheckRedirect: func(req *http.Request, via []*http.Request) error { if len(via) >= 50 { return fmt.Errorf(\"stopped after 50 redirects\") } return nil }, Jar: jar, }", "req, err := http.NewRequestWithContext(ctx, \"POST\", t.tokenURL, strings.NewReader(data.Encode()))", "if err != nil { return nil, fmt.Errorf(\"failed to create token request: %w\", err) }", "req.Header.Set(\"Content-Type\", \"application/x-www-form-urlencoded\")", "resp, err := client.Do(req)", "if err != nil { return nil, fmt.Errorf(\"failed to exchange tokens: %w\", err) }", "defer resp.Body.Close()", "if resp.StatusCode != http.StatusOK { bodyBytes, _ := io.ReadAll(resp.Body) return nil, fmt.Errorf(\"token endpoint returned status %d: %s\", resp.StatusCode, string(bodyBytes)) }", "var tokenResponse TokenResponse", "if err := json.NewDecoder(resp.Body).Decode(&tokenResponse); err != nil { return nil, fmt.Errorf(\"failed to decode token response: %w\", err) }", "return &tokenResponse, nil"]
def Text_TraefikOidc_exchangeTokens : Prop := text_TraefikOidc_exchangeTokens = expectedText_TraefikOidc_exchangeTokens

def expectedText_TraefikOidc_getNewTokenWithRefreshToken : List String := ["ctx := context.Background()", "tokenResponse, err := t.exchangeTokens(ctx, \"refresh_token\", refreshToken, \"\", \"\")", "if err != nil { return nil, fmt.Errorf(\"failed to refresh token: %w\", err) }", "return tokenResponse, nil"]
def Text_TraefikOidc_getNewTokenWithRefreshToken : Prop := text_TraefikOidc_getNewTokenWithRefreshToken = expectedText_TraefikOidc_getNewTokenWithRefreshToken

def expectedText_TraefikOidc_verifyToken : List String := ["return t.tokenVerifier.VerifyToken(token)"]
def Text_TraefikOidc_verifyToken : Prop := text_TraefikOidc_verifyToken = expectedText_TraefikOidc_verifyToken

def expectedText_fetchJWKS : List String := ["req, err := http.NewRequestWithContext(ctx, \"GET\", jwksURL, nil)", "if err != nil { return nil, fmt.Errorf(\"failed to create JWKS request: %w\", err) }", "resp, err := httpClient.Do(req)", "if err != nil { return nil, fmt.Errorf(\"failed to fetch JWKS: %w\", err) }", "defer resp.Body.Close()", "if resp.StatusCode != http.StatusOK { return nil, fmt.Errorf(\"failed to fetch JWKS: unexpected status code %d\", resp.StatusCode) }", "var jwks JWKSet", "if err := json.NewDecoder(resp.Body).Decode(&jwks); err != nil { return nil, fmt.Errorf(\"failed to decode JWKS: %w\", err) }", "return &jwks, nil"]
def Text_fetchJWKS : Prop := text_fetchJWKS = expectedText_fetchJWKS

def expectedText_rsaJWKToPEM : List String := ["nBytes, err := base64.RawURLEncoding.DecodeString(jwk.N)", "if err != nil { return nil, fmt.Errorf(\"failed to decode JWK 'n' parameter: %w\", err) }", "eBytes, err := base64.RawURLEncoding.DecodeString(jwk.E)", "if err != nil { return nil, fmt.Errorf(\"failed to decode JWK 'e' parameter: %w\", err) }", "n := new(big.Int).SetBytes(nBytes)", "e := new(big.Int).SetBytes(eBytes)", "pubKey := &rsa.PublicKey{ N: n, E: int(e.Int64()), }", "pubKeyBytes, err := x509.MarshalPKIXPublicKey(pubKey)", "if err != nil { return nil, fmt.Errorf(\"failed to marshal RSA public key: %w\", err) }", "pubKeyPEM := pem.EncodeToMemory(&pem.Block{ Type: \"PUBLIC KEY\", Bytes: pubKeyBytes, })", "return pubKeyPEM, nil"]
def Text_rsaJWKToPEM : Prop := text_rsaJWKToPEM = expectedText_rsaJWKToPEM

def expectedText_ecJWKToPEM : List String := ["xBytes, err := base64.RawURLEncoding.DecodeString(jwk.X)", "if err != nil { return nil, fmt.Errorf(\"failed to decode JWK 'x' parameter: %w\", err) }", "yBytes, err := base64.RawURLEncoding.DecodeString(jwk.Y)", "if err != nil { return nil, fmt.Errorf(\"failed to decode JWK 'y' parameter: %w\", err) }", "var curve elliptic.Curve", "switch jwk.Crv { case \"P-256\": curve = elliptic.P256() case \"P-384\": curve = elliptic.P384() case \"P-521\": curve = elliptic.P521() default: return nil, fmt.Errorf(\"unsupported elliptic curve: %s\", jwk.Crv) }", "pubKey := &ecdsa.PublicKey{ Curve: curve, X: new(big.Int).SetBytes(xBytes), Y: new(big.Int).SetBytes(yBytes), }", "pubKeyBytes, err := x509.MarshalPKIXPublicKey(pubKey)", "if err != nil { return nil, fmt.Errorf(\"failed to marshal EC public key: %w\", err) }", "pubKeyPEM := pem.EncodeToMemory(&pem.Block{ Type: \"PUBLIC KEY\", Bytes: pubKeyBytes, })", "return pubKeyPEM, nil"]
def Text_ecJWKToPEM : Prop := text_ecJWKToPEM = expectedText_ecJWKToPEM

def expectedText_deriveCodeChallenge : List String := ["hasher := sha256.New()", "hasher.Write([]byte(codeVerifier))", "hash := hasher.Sum(nil)", "return base64.RawURLEncoding.EncodeToString(hash)"]
def Text_deriveCodeChallenge : Prop := text_deriveCodeChallenge = expectedText_deriveCodeChallenge

def expectedText_generateCodeVerifier : List String := ["verifierBytes := make([]byte, 32)", "_, err := rand.Read(verifierBytes)", "if err != nil { return \"\", fmt.Errorf(\"could not generate code verifier: %w\", err) }", "return base64.RawURLEncoding.EncodeToString(verifierBytes), nil"]
def Text_generateCodeVerifier : Prop := text_generateCodeVerifier = expectedText_generateCodeVerifier

def expectedText_generateNonce : List String := ["nonceBytes := make([]byte, 32)", "_, err := rand.Read(nonceBytes)", "if err != nil { return \"\", fmt.Errorf(\"could not generate nonce: %w\", err) }", "return base64.URLEncoding.EncodeToString(nonceBytes), nil"]
def Text_generateNonce : Prop := text_generateNonce = expectedText_generateNonce

def expectedText_handleError : List String := ["http.Error(w, message, code)"]
def Text_handleError : Prop := text_handleError = expectedText_handleError

def expectedText_generateSecureRandomString : List String := ["bytes := make([]byte, length)", "if _, err := rand.Read(bytes); err != nil { return \"\", fmt.Errorf(\"failed to generate random bytes: %w\", err) }", "return hex.EncodeToString(bytes), nil"]
def Text_generateSecureRandomString : Prop := text_generateSecureRandomString = expectedText_generateSecureRandomString

end Oidc.Shapes
