#!/bin/bash
# builds /verif/build/harness.test from /repo's working tree + the overlay-injected harness
set -e
cd /verif
python3 - <<'PY'
import json, glob, os
ov = {}
for f in glob.glob('/verif/harness/*.go') + glob.glob('/verif/harness/hooks/*.go'):
    ov['/repo/' + os.path.basename(f)] = f
os.makedirs('/verif/build', exist_ok=True)
json.dump({'Replace': ov}, open('/verif/build/overlay.json', 'w'), indent=1)
PY
cd /repo && GOFLAGS= GOTOOLCHAIN=local GOPROXY=off GOSUMDB=off go1.26.8 test -c -vet=off -tags verifhooks "$@" -overlay /verif/build/overlay.json -o /verif/build/harness.test .
