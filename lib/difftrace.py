#!/usr/bin/env python3
"""ad-hoc: diff a trace with driver predictions using ./check's comparison; usage: difftrace.py <family> <trace> [fields...]"""
import sys, os, json, subprocess, importlib.util, importlib.machinery
loader = importlib.machinery.SourceFileLoader('chk', '/verif/check')
spec = importlib.util.spec_from_loader('chk', loader)
chk = importlib.util.module_from_spec(spec)
sys.argv_backup = sys.argv
loader.exec_module(chk)
fam, trace = sys.argv[1], sys.argv[2]
fields = sys.argv[3:] or None
pred = trace + '.pred'
ok, err, dt = chk.run_driver(fam, trace, pred)
print('driver', ok, err.strip()[-300:], round(dt, 2))
agg = {'evaluations': 0, 'distinct_nontrivial': 0, 'seen': set(), 'samples': [], 'dist': {}, 'traces_validated': 0}
o, d = chk.analyse('X', {'fields': fields}, trace, pred, agg)
print('steps', agg['evaluations'], 'validated', agg['traces_validated'], 'oracle', len(o), 'disagreements', len(d))
def short(v):
    if isinstance(v, str):
        return v if len(v) <= 70 else v[:50] + '...(%d)' % len(v)
    if isinstance(v, list):
        return [short(x) for x in v]
    if isinstance(v, dict):
        return {k: short(x) for k, x in v.items()}
    return v
for x in d[:int(os.environ.get('N', '6'))]:
    i = x.get('input', {})
    print('step', x['step'], 'scn', x.get('scenario'), json.dumps(short({k: i.get(k) for k in ('method', 'line', 'json', 'preflight', 'note', 'now', 'b', 'i', 'exchange', 'refresh', 'hdrs') if i.get(k) not in (None, '', [], False)})))
    print('   differs', json.dumps(short(x.get('differs', x.get('model')))))

