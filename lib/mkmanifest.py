#!/usr/bin/env python3
"""writes /verif/MANIFEST.json from lib/props.py (single source of truth for what is claimed)"""
import json, sys, os
sys.path.insert(0, os.path.dirname(__file__))
from props import PROPS
ALL = [f'C{n:02d}' for n in range(1, 21)]
NA = {}
try:
    from props import NOT_APPLICABLE as NA
except Exception:
    pass
checks = []
for pid in ALL:
    if pid not in PROPS:
        continue
    c = PROPS[pid]
    checks.append({
        'property_id': pid,
        'quick_cmd': f'./check {pid} --tier quick',
        'thorough_cmd': f'./check {pid} --tier thorough',
        'evidence_file': f'/verif/evidence/{pid}.json',
        'replay_cmd_template': f'./check {pid} --replay {{path}}',
        'engine': 'lean4-proof+correspondence',
        'level_claimed': {'category': 'proof', 'text': c.get('level_text', c.get('explanation', '')), 'design_ref': c.get('design_ref', f'DESIGN.md section 6, {pid}')},
        'level_note': c.get('level_note', 'Trusted: Lean 4.33.0 kernel (axioms propext, Classical.choice, Quot.sound only; audited on every run); the hand-written model is tied to /repo by regenerated facts (tools/facts) and by differential execution of the real code against the Lean driver on every run; ' + '; '.join(c.get('assumptions', []))),
        'technique': c.get('technique', 'Lean 4 theorems about an executable model + regenerated facts + differential correspondence with the Go implementation + reference oracle'),
    })
m = {
    'version': 1,
    'setup_cmd': './setup.sh',
    'hooks': {
        'guard': 'verifhooks',
        'enable': 'cd /repo && GOTOOLCHAIN=local GOPROXY=off GOSUMDB=off go1.26.8 test -c -vet=off -tags verifhooks -overlay /verif/build/overlay.json -o /verif/build/harness.test .   (the overlay injects /verif/harness/*.go and /verif/harness/hooks/*.go into the package at build time; nothing is written into /repo)',
        'baseline_off_cmd': 'cd /repo && GOFLAGS=-mod=mod GOPROXY=off go test -json -vet=off -count=1 -timeout 25m ./...',
        'source_commits': [],
        'add_only': True,
    },
    'engines': [
        {'name': 'lean4-proof+correspondence', 'path': '/verif/check', 'serves_properties': [c['property_id'] for c in checks],
         'kind_free_text': 'Lean 4 (core only) model + theorems in /verif/lean; Go harness injected by overlay drives the real code; Lean driver (compiled lean_exe) replays the traces; Python orchestrates, diffs and decides'},
    ],
    'checks': checks,
    'notes': 'See DESIGN.md. Fixed defects and the known finding are listed in known_findings.json.',
    'not_applicable': [{'property_id': p, 'reason': NA.get(p, 'check not wired yet in this revision (work in progress; the design in DESIGN.md section 6 applies)')} for p in ALL if p not in PROPS],
}
json.dump(m, open('/verif/MANIFEST.json', 'w'), indent=1)
print('claimed', len(checks), 'not_applicable', len(m['not_applicable']))
