#!/usr/bin/env python3
"""Re-pins the expected shapes of the handler's decision functions (lean/Oidc/Shapes.lean) from the facts extracted from /repo's
current tree.  Run by hand, and only after having read the functions again and updated the Lean model to follow them: the pinned
shapes say "this is the program text the model `Oidc.Handler` was written against".  Never run by a check."""
import json, os, subprocess, sys
ROOT = os.path.dirname(os.path.dirname(os.path.abspath(__file__)))
repo = os.environ.get('VERIF_REPO', '/repo')
tool = os.path.join(ROOT, 'build', 'facts')
subprocess.run(['go', 'build', '-o', tool, '.'], cwd=os.path.join(ROOT, 'tools/facts'), check=True, env=dict(os.environ, GOFLAGS='-mod=mod', GOPROXY='off'))
subprocess.run([tool, repo, os.path.join(ROOT, 'lean/Oidc/Generated/Facts.lean'), os.path.join(ROOT, 'build/facts.json'), os.path.join(ROOT, 'build/dict.json')], check=True)
d = json.load(open(os.path.join(ROOT, 'build/facts.json')))
facts = d if isinstance(d, list) else d.get('facts', d)
out = ['import Oidc.Generated.Facts',
       '/-! # The shapes of the handler\'s decision functions the model was written against (pinned by lib/pin_shapes.py)',
       '',
       '`Oidc.Generated.skel_<f>` is regenerated from /repo on every run: the steps of function `f` in order — guards (normalised',
       'text), calls on the instance, the session, the request headers and net/http with their literal arguments and status codes, and',
       'the returns.  `Oidc.Handler` follows these steps statement by statement (`serveV`, `handleCallback`, `authorized`, `classify`,',
       '`refreshFlow`, `handleLogout`, `initiate`, the expired branch).  `Shape_<f>` says that the function still has the shape the',
       'model was written against; the property files carry it as a proof obligation (`rfl`), so a reordered, added or dropped step, a',
       'changed guard, status code or literal breaks the obligation of every property whose theorems rest on that function. -/',
       'namespace Oidc.Shapes', 'open Oidc.Generated', '']
for f in facts:
    if f['name'].startswith('skel_'):
        n = f['name'][5:]
        out.append(f'def expected_{n} : List String := {f["lean"]}')
        out.append(f'def Shape_{n} : Prop := skel_{n} = expected_{n}')
        out.append('')
for f in facts:
    if f['name'].startswith('text_'):
        n = f['name'][5:]
        out.append(f'def expectedText_{n} : List String := {f["lean"]}')
        out.append(f'def Text_{n} : Prop := text_{n} = expectedText_{n}')
        out.append('')
out.append('end Oidc.Shapes')
open(os.path.join(ROOT, 'lean/Oidc/Shapes.lean'), 'w').write('\n'.join(out) + '\n')
print('pinned', sum(1 for f in facts if f['name'].startswith('skel_')), 'shapes')
