"""Per-property configuration of ./check: which harness family drives the real code, which observation fields are
compared with the model's prediction (None = every field the model predicts), which regenerated facts are obligations."""

CACHE_FACTS = ['cacheGetExpiry', 'cacheCleanupExpiry', 'cacheEvictExpiry', 'cacheCleanupFactorMilli', 'cacheCapacityTestGE', 'defaultMaxSize']
CACHE_TRUSTED = ['sync.RWMutex, container/list and Go maps behave as documented; the monotonic clock is non-decreasing (virtual clock in the runs)']

PROPS = {
    'C02': dict(
        family='jwt', fields=['r'], crash_is_violation=True,
        facts=['supportedAlgs', 'hashAlgs', 'rsaAlgPrefixes', 'ecAlgPrefixes', 'skewFutureSec', 'skewPastSec', 'nbfTypeChecked', 'ecdsaSigLenExact'],
        trusted=['parsing (three-part split, base64url, JSON) and the cryptographic signature check are computed by the harness with Go\'s encoding/* and crypto/* directly (reference decoders); the Lean model starts from the parsed token',
                 'ECDSA (r, n-s) malleability yields a valid signature value and is accepted by the reference as well'],
        rule='one case = one token string presented once to VerifyToken of a real instance (per key of RSA 2048/3072/4096 and EC P-256/384/521 and per algorithm: a valid token and ~330 single deviations of '
             'every header field, every claim (missing / each wrong JSON type / boundary -1,0,+1 s around each tolerance incl. fractional seconds), byte-level mutations of the three parts, '
             'signature re-encodings, kid/alg confusion incl. HS256 keyed with the public key, sampled double deviations, and a raw malformed stream); distinct = distinct (label, abstract token, answer); '
             'non-trivial = every case except the raw malformed stream',
        assumptions=['numeric claims outside +-4e18 are outside the compared domain (Go float to int64 conversion is implementation-defined there)'],
        explanation='Lean theorem verify_iff (staged verifier in the code\'s order <=> flat statement of the property) with corollaries per deviation class and accept_interval; tie: accept/reject of every generated token replayed on the abstract description; oracle: reference verifier = the property\'s iff, both directions',
    ),
    'C12': dict(
        family='cache', fields=['r', 'len', 'order'], facts=CACHE_FACTS, trusted=CACHE_TRUSTED,
        rule='one case = one Set/Get/Delete/Cleanup/tick step on the real Cache in virtual time (families: dense tiny caches, boundary lifetimes, '
             'expired-first eviction, LRU at capacity 500, uniform mix); distinct = distinct (operation, key, value, ttl, observed result incl. full LRU order for tiny caches); '
             'non-trivial = every step except a miss on a key the reference never held',
        assumptions=['a clock that never runs backwards', 'values are compared by identity of the stored operation index'],
        explanation='Lean theorems over all histories and capacities (get_sound, nonpositive_invisible, cleanup_*, get_complete); model tied by step-by-step replay incl. internal order; reference-map oracle on the implementation',
    ),
    'C13': dict(
        family='cache', fields=['r', 'len', 'order'], facts=CACHE_FACTS + ['cacheLockedMethods', 'cacheUnlockedMethods', 'cachePrivateCalledOnlyLocked'], trusted=CACHE_TRUSTED,
        race=True,
        rule='as C12; additionally every Set of a new key into a full cache is judged by the eviction oracle (exactly one victim, expired first, else LRU by an independent recency log), '
             'and 2-16 goroutines hammer one cache (value/key tagging, post-quiescence consistency through the snapshot hook; -race build in the thorough tier)',
        assumptions=['whole-operation atomicity rests on the regenerated lock-discipline fact (every exported method: Lock(); defer Unlock() first)',
                     'data-race and deadlock freedom of the Go runtime objects are supported by the -race stress run, not proved'],
        explanation='Lean theorems size_le_cap, evict_exactly_one, live_survives_if_expired_exists, lru_loss, interleaving_is_history; tie as C12',
    ),
    'C14': dict(
        family='verify', driver_family='verify', fields=['r'], facts=['blacklistDurationSec', 'skewFutureSec', 'defaultMaxSize', 'cacheGetExpiry'],
        trusted=['the verdict of a from-scratch verification is the reference verdict by construction of each token (C02 ties it to the code)',
                 'golang.org/x/time/rate token-bucket arithmetic (float64; compared away from the admission threshold)'],
        rule='one case = one VerifyToken/RevokeToken step on a real instance in virtual time (3-13 tokens per scenario: valid short/long-lived, becoming valid later, bad signature, '
             'foreign issuer/audience, no sub, garbage; with/without/shared jti; waits from 0 to 49 h; low-limit scenarios); distinct = distinct (op, token kind, answer); '
             'non-trivial = all steps',
        assumptions=['histories stay within the capacity (500) of the revocation list, as the property states', 'clock non-decreasing'],
        explanation='Lean theorems over all histories (history_valid_implies_scratch, failed_never_cached, revoke_immediate, revTTL_covers); tie: step-by-step replay of VerifyToken/RevokeToken answers; reference oracle: accepted => reference verdict at that instant and never revoked before',
    ),
    'C19': dict(
        family='limiter', driver_family='verify', fields=['r'], facts=['limiterRateIsConfigPerSecond', 'limiterBurstIsConfig'],
        trusted=['golang.org/x/time/rate computes in float64 and truncates waits to whole nanoseconds: decisions within (r + 2e5)e-9 tokens of the threshold are followed, not compared'],
        rule='one case = one VerifyToken arrival of a fresh correctly signed token (patterns: steady at/below the limit, drain-then-overload, bursts with idle gaps, just above the limit, '
             'refused-then-retried, random; limits 10/37/100/1000/random) plus 20R requests on an authenticated session; distinct = distinct (pattern step, answer); non-trivial = all steps',
        assumptions=['arrival instants are those of the virtual clock', 'exact-threshold arrivals are excluded from comparison (never compare floats)'],
        explanation='Lean theorems upper / upper_one_second (at most 2R per one-second window), steady_admitted, inv_run, refused_not_performed; tie: admit/refuse sequence replayed by the integer token-bucket model; oracles: sliding-window count, steady streams never refused, sustained admission under overload, session traffic unlimited',
    ),
}

for _k, _v in PROPS.items():
    _v.setdefault('nt_default', True)
