"""Per-property configuration of ./check: which harness family drives the real code, which observation fields are
compared with the model's prediction (None = every field the model predicts), which regenerated facts are obligations."""

CACHE_FACTS = ['cacheGetExpiry', 'cacheCleanupExpiry', 'cacheEvictExpiry', 'cacheCleanupFactorMilli', 'cacheCapacityTestGE', 'defaultMaxSize']
CACHE_TRUSTED = ['sync.RWMutex, container/list and Go maps behave as documented; the monotonic clock is non-decreasing (virtual clock in the runs)']

PROPS = {
    'C12': dict(
        family='cache', fields=['r', 'len', 'order'], facts=CACHE_FACTS, trusted=CACHE_TRUSTED,
        rule='one case = one Set/Get/Delete/Cleanup/tick step on the real Cache in virtual time (families: dense tiny caches, boundary lifetimes, '
             'expired-first eviction, LRU at capacity 500, uniform mix); distinct = distinct (operation, key, value, ttl, observed result incl. full LRU order for tiny caches); '
             'non-trivial = every step except a miss on a key the reference never held',
        assumptions=['a clock that never runs backwards', 'values are compared by identity of the stored operation index'],
        explanation='Lean theorems over all histories and capacities (get_sound, nonpositive_invisible, cleanup_*, get_complete); model tied by step-by-step replay incl. internal order; reference-map oracle on the implementation',
    ),
    'C13': dict(
        family='cache', fields=['r', 'len', 'order'], facts=CACHE_FACTS + ['cacheLockedMethods', 'cacheUnlockedMethods', 'cachePrivateCalledOnlyLocked'], trusted=CACHE_TRUSTED,
        race=True,
        rule='as C12; additionally every Set of a new key into a full cache is judged by the eviction oracle (exactly one victim, expired first, else LRU by an independent recency log), '
             'and 2-16 goroutines hammer one cache (value/key tagging, post-quiescence consistency through the snapshot hook; -race build in the thorough tier)',
        assumptions=['whole-operation atomicity rests on the regenerated lock-discipline fact (every exported method: Lock(); defer Unlock() first)',
                     'data-race and deadlock freedom of the Go runtime objects are supported by the -race stress run, not proved'],
        explanation='Lean theorems size_le_cap, evict_exactly_one, live_survives_if_expired_exists, lru_loss, interleaving_is_history; tie as C12',
    ),
}

for _k, _v in PROPS.items():
    _v.setdefault('nt_default', True)
