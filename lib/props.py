"""Per-property configuration of ./check: which harness family drives the real code, which observation fields are
compared with the model's prediction (None = every field the model predicts), which regenerated facts are obligations."""

CACHE_FACTS = ['cacheGetExpiry', 'cacheCleanupExpiry', 'cacheEvictExpiry', 'cacheCleanupFactorMilli', 'cacheCapacityTestGE', 'defaultMaxSize']
CACHE_TRUSTED = ['sync.RWMutex, container/list and Go maps behave as documented; the monotonic clock is non-decreasing (virtual clock in the runs)']

H_TRUST = ['cookie authenticity and opacity are the ideal-MAC / unknown-keystream abstraction of C09 (a cookie is `good payload` or `bad`)',
                 'token signature validity is the reference verdict by construction of each token (C02 ties it to the code); gzip+base64 is an abstract injective codec (stand-in of the measured length)',
                 'net/http request parsing, header canonicalisation, http.Redirect path cleaning and body escaping; text/template execution (table computed by the harness)']
H_RULE = 'one case = one HTTP request served by a real instance (browsers x instances x a scripted, checking provider, virtual time on whole seconds); scenarios = a phase-structured opening specific to the property followed by a weighted random walk over {request, full login, initiation, callback with own/stale/foreign/bogus state or code, logout, time jump, cookie tampering (garbage, bit flip, truncation, other key, oversize, renamed, deleted, older authentic value), snapshot, new/other instance, new/other browser}; distinct = distinct (abstract request, provider answer, observation); non-trivial = all'


def hp(fields, expl, extra_facts=(), **kw):
    d = dict(family='handler', fields=fields, facts=list(extra_facts), trusted=list(H_TRUST), rule=H_RULE, explanation=expl, timeout=1200,
             assumptions=['a conformant provider is the harness provider: codes single-use and bound to redirect_uri and S256 challenge, ID token carries the nonce of the authorization request'])
    d.update(kw)
    return d


PROPS = {
    'C01': hp(['class', 'down', 'calls'], 'Lean: gate, protected_answers, excluded_passthrough, flag_origin, unauthenticated_redirects, and over every history of one browser: issued_only_by_login, forward_needs_login; tie: response class / downstream invocation / provider calls of every step; oracle: forwarded and not excluded => session valid by construction labels', extra_facts=[]),
    'C03': hp(['class', 'calls', 'loc', 'jar'], 'Lean: callback_binds, csrf_after_step, and over every history: params_of_latest_initiation, callback_completes_latest (state, nonce and verifier of the most recent initiation); initiation_stores_what_it_sends, consumed, replay_rejected, no_session_on_error, login_completes; tie: class, token-endpoint calls (code, verifier symbol, redirect_uri), Location parameters and the whole jar view after every step; oracle: a session is established only with state/nonce/challenge of the most recent initiation of that browser, replays contact nobody, values never repeat', extra_facts=['randomFromCryptoRand', 'nonceBytes', 'verifierBytes']),
    'C04': hp(['class', 'calls', 'down'], 'Lean: session_continues (any later instance/time within the window), jar_fixed, session_continues_history (any sequence of later requests, each with its own instance), accept_interval; tie: class and provider calls; oracle: own untampered session with exp-now > grace and age <= 24 h must be forwarded with zero provider calls on every instance', extra_facts=['maxCookieSize', 'absoluteSessionTimeoutSec'], extra_runs=[dict(family='sched', diff=False)]),
    'C06': hp(['class', 'code', 'down'], 'Lean: isAllowedDomain_iff, rolesGate_iff, wrongly_typed_fails_closed, gate_every_forward, login_rejected; tie: class and status code; oracle: forwarded => reference domain predicate (regex + exact lookup) and reference role predicate on the token of this step'),
    'C08': hp(['class', 'code', 'calls', 'jar', 'hdrs'], 'Lean: no_refresh_without_token, refresh_completes, refresh_chain (any chain of successive refreshes), refreshed_session_holds, refresh_success, refresh_identity, refresh_grant_failed, refresh_bad_token_not_forwarded, refresh_never_5xx; tie: class, code, grant calls, stored tokens, forwarded identity; oracle: exactly one grant when due, forwarded identity and stored tokens from the new answer, 401/redirect and refresh-token removal on failure; family token-real: the default HTTP client against a loopback provider that drops a re-used connection after receiving a grant: still exactly one grant per request', extra_facts=[], extra_runs=[dict(family='token-real', diff=False)]),
    'C10': hp(['class', 'hdrs'], 'Lean: identity_from_session, identity_noninterference, fixed/template names protected, forwarded_headers; tie: the identity and templated headers seen downstream; oracle: each such header is the derived value or absent'),
    'C11': hp(['class', 'loc', 'jar', 'calls'], 'Lean: logout_ends, no_forward_until_new_login (any history after the logout), dead_stays_dead, logout_location, postLogout_resolution, cleared_is_anonymous; tie: class, Location, jar after logout; oracle: Location equals the reference construction, no request forwarded after logout until a new login', extra_facts=[]),
    'C15': hp(['class', 'loc'], 'Lean: stored_path_safe, initiate_stores_local, postLoginTarget_local, local_is_same_origin, callback_redirect_is_local, logout_target; tie: class and Location fields; oracle: origin of every Location as a browser resolves it is the request origin, the provider, or the configured post-logout URI', extra_facts=['maxIncomingPathLength']),
    'C16': hp(['class', 'code', 'body', 'msg'], 'Lean: escape_safe, escape_entities, errPage_html, errPage_kinds, callback_error_body; tie: status, body kind and the rendered message of the request-derived error text; oracle: markers in every client-controlled field never appear unescaped in HTML, JSON bodies parse and carry the message as a string, anything else is text/plain'),
    'C17': hp(['class', 'code', 'jar', 'calls'], 'Lean: only_callback_5xx_partial (K1 named), bad_is_absent, unusable_redirects, heals, stored_uri_bounded; tie: class, code, jar; oracle: no panic, no 5xx unless the scripted provider misbehaved, login from the resulting jar succeeds and the next request is forwarded', extra_facts=['maxIncomingPathLength', 'maxCookieSize', 'absoluteSessionTimeoutSec'], crash_is_violation=True, extra_runs=[dict(family='sched', diff=False)]),
    'C07': dict(
        family='session', driver_family='handler', fields=['jar', 'saveErr'], facts=['maxCookieSize', 'absoluteSessionTimeoutSec', 'mainCookieName', 'accessTokenCookie', 'refreshTokenCookie'],
        trusted=['gzip+base64 is an abstract injective codec in the model (decompress (compress t) = t, compress t != ""); its real round trip is exercised by every run',
                 'browser Set-Cookie semantics: replace by name, delete on Max-Age<=0 (harness jar)'],
        rule='one case = one Save (or Clear) of a SessionData obtained through the exported SessionManager API, through a browser jar: histories of 1-10 requests x 0-4 writes x 1-2 saves per response; token lengths '
             'empty / 1 / compressible / exactly at and +-4,8 bytes around k*2000 compressed for k=1..12 / 10-40 kB; contents: repeated byte, alphanumeric, arbitrary bytes, base64-of-gzip, base64-not-gzip, JWT-looking; '
             'distinct = distinct (writes, observed jar view, line lengths); non-trivial = all',
        assumptions=['main-cookie fields stay within the sizes the handler produces (state 36, nonce 44, verifier 43, e-mail <= 320, remembered URI <= 1024 bytes)'],
        explanation='Lean: read_back (history-level refinement of a plain record of fields), read_back_from_empty, getSession_saved, getToken_setToken, fieldsOf_applyW, split_join; tie: complete jar view after every Save; oracle: reference record of last written values compared byte for byte with the getters of the next request',
    ),
    'C09': dict(
        family='session', driver_family='handler', fields=['jar'], facts=['cookieStoreKeyArgs', 'cookieStoreAllPairsEncrypted', 'securecookieMaxLen', 'minEncryptionKeyLength'],
        extra_runs=[dict(family='handler', diff=False)],
        trusted=['HMAC-SHA256 unforgeability enters as MacInj, AES-CTR as a stream cipher with unknown keystream: cryptographic strength is assumed, not proved',
                 'gorilla/securecookie and gorilla/sessions are modelled at the framing level (b64(ts|b64(body)|mac(name|ts|b64(body))))'],
        rule='one case = (i) one emitted cookie value analysed without the key (base64 layers, split, gob decoding attempt, decompression of base64 runs, search for every planted secret and 16-byte windows of long ones) in the '
             'session-API histories and in every handler flow; (ii) one tamper trial on an authentic value (bit flip of the decoded value, truncation, extension, value of another cookie name, minted under a key differing in one '
             'character, one character changed, empty, timestamp rewritten): the jar must read exactly as if that cookie were absent; distinct = distinct (kind, cookie, outcome); non-trivial = all',
        assumptions=['the length of the compressed token is not hidden (stated in opaque_contents)'],
        explanation='Lean: tamper_evident, frame_injective, foreign_rejected (under MacInj), decode_encode, opaque_contents; facts: block key passed to the cookie store; tie: tampered cookie predicted `bad` = absent; oracles: keyless extractor finds no planted secret, tampered value never read as session content',
    ),
    'C18': dict(
        family='session', driver_family='handler', fields=['lines', 'attrs', 'dattrs', 'saveErr'],
        facts=['maxCookieSize', 'maxIncomingPathLength', 'absoluteSessionTimeoutSec', 'mainCookieName', 'accessTokenCookie', 'refreshTokenCookie', 'optHttpOnly', 'optSameSiteLax', 'optPathRoot',
               'optMaxAgeIsSessionTimeout', 'optSecureIncludesForceHTTPS', 'saveAssignsOptionsToAll', 'securecookieMaxLen', 'cookieValueCeiling', 'cookieStoreKeyArgs'],
        extra_runs=[dict(family='handler', diff=False)],
        trusted=['encoding/gob byte layout (DESIGN appendix B) - checked for equality on every line of every run', 'net/http Cookie.String attribute rendering'],
        rule='one case = one Set-Cookie line: in the session-API histories the exact byte length of every line is compared with the Lean length arithmetic evaluated on the model\'s own payloads; in the handler flows '
             '(e-mail values of 1 700-8 300 bytes around and above the ceiling included: the model says which saves are refused); (login with tokens at chunk boundaries, request URIs of 10-2100 bytes, refresh to another size, logout, expiry, recovery) every line is checked for prefix, Path=/, HttpOnly, SameSite=Lax, no Domain, Secure under forceHTTPS, '
             'Max-Age <= 86400 and length <= 4096; distinct = distinct (cookie name, length); non-trivial = all',
        assumptions=['timestamps of ten digits (until 2286)', 'that no Save fails for length is shown for e-mail claims of at most 320 bytes (RFC 5321: 254); the 4096-byte bound itself has no hypothesis on the content'],
        explanation='Lean: every_emitted_line_le_4096 / current_every_line_le_4096 (any content: a line is emitted only within the codecs\' ceiling on the value, regenerated fact cookieValueCeiling), saves_fit, chunk_line_le_4096, whole_line_le_4096, main_line_le_4096, current_chunk_fits; facts: the sessions.Options literal and its assignment in Save; tie: exact line lengths; oracle: attributes and length of every raw Set-Cookie line',
    ),
    'C20': dict(
        family='discovery', fields=['r', 'doc', 'es', 'times'], timeout=1500,
        extra_runs=[dict(family='discovery-real', diff=False, tier='thorough')],
        facts=['initializeMetadataLoops', 'metadataRetryIntervalSec', 'discoveryMaxRetries', 'discoveryBaseDelaySec', 'discoveryMaxDelaySec', 'initWaitSec', 'metadataRequired'],
        trusted=['real-time liveness is represented by the virtual clock (testing/synctest); the metadata cache\'s 5-minute clean-up goroutine is stopped through the overlay hook (it only drops an already expired document) '
                 'because a goroutine waiting for the mutex GetMetadata holds during a whole round is not durably blocked under synctest',
                 'the 5-minute cap of one discovery round is not modelled (unreachable for answers of under a minute)'],
        rule='one case = one request against an instance created by New() with a scripted discovery endpoint (0-40 faults of kinds refused / failing status / malformed JSON / slow-then-fail / 200 answers that are JSON but not provider metadata, recovery with immediate or slow answers, '
             'further faults and changed documents hitting the hourly refresh), arriving before, during and after recovery, one third with a client that gives up after 1-40 s; plus one comparison of all '
             'discovery attempt instants per scenario; distinct = distinct (script position, answer); non-trivial = all',
        assumptions=['requests never arrive exactly on a timer boundary (select would choose at random)'],
        explanation='Lean: fail_closed, not_served_before_init, empty_issuer_never_served, heals (any finite fault script, bound on the instant), served_after_init, latest_wins, round_first_healthy, init_document_complete / refresh_keeps_documents_complete (only documents carrying every required member are ever served with; the required members are extracted from fetchMetadata and the driver classifies 200 answers with them); facts: initializeMetadata loops, constants; tie: status of every request, document in force, exact virtual instants of every discovery attempt incl. the hourly refresh; oracle: nothing but 503/408 before a healthy answer completed, serving hours after recovery',
    ),
    'C05': dict(
        family='sched', driver_family='handler', fields=['class', 'code', 'calls', 'loc', 'jar', 'hdrs', 'down'], facts=['poolPutCount', 'poolPutOnlyBeforeNilReturn', 'cacheLockedMethods', 'cacheUnlockedMethods', 'nestedLockCalls', 'housekeepingCalls'],
        race=True, crash_is_violation=True, timeout=1500,
        trusted=['Go memory model, sync.Mutex, sync.Pool, the scheduler: data races, deadlocks and runtime aborts are outside the Lean model; the -race stress run of the thorough tier is supporting evidence only',
                 'interleavings are explored at scheduling-point granularity (ResponseWriter methods, provider calls, downstream entry); code between two points runs alone'],
        rule='one case = one request served concurrently under a deterministic schedule on a real instance: pairs (anonymous x logged-in small/multi-chunk, anonymous x anonymous, logged-in x logged-in, x logout, x callback) with every cut point '
             'of the first request in both orders, sampled triples; each response is one step of the handler protocol for its own browser and is compared with the model\'s solo prediction; plus an unscheduled 8-goroutine stress; '
             'distinct = distinct (request kind, schedule, observation); non-trivial = all',
        assumptions=['objects not shared through the pool or a mutex are request-local (the fact extractor checks the pool discipline)'],
        explanation='Lean: isolation (every schedule, any number of requests: completed requests emit their solo output), ownership_step; facts: pool discipline; tie: every concurrently served response equals serveJar on its own jar (the model of serving it alone); oracles: Location state = own cookie csrf, anonymous requests never receive a session, forwarded identity is the own one, no panic, no deadlock',
    ),
    'C02': dict(
        family='jwt', fields=['r'], crash_is_violation=True,
        facts=['supportedAlgs', 'hashAlgs', 'rsaAlgPrefixes', 'ecAlgPrefixes', 'skewFutureSec', 'skewPastSec', 'nbfTypeChecked', 'ecdsaSigLenExact'],
        trusted=['parsing (three-part split, base64url, JSON) and the cryptographic signature check are computed by the harness with Go\'s encoding/* and crypto/* directly (reference decoders); the Lean model starts from the parsed token',
                 'ECDSA (r, n-s) malleability yields a valid signature value and is accepted by the reference as well'],
        rule='one case = one token string presented once to VerifyToken of a real instance (per key of RSA 2048/3072/4096 and EC P-256/384/521 and per algorithm: a valid token and ~330 single deviations of '
             'every header field, every claim (missing / each wrong JSON type / boundary -1,0,+1 s around each tolerance incl. fractional seconds), byte-level mutations of the three parts, '
             'signature re-encodings, kid/alg confusion incl. HS256 keyed with the public key, sampled double deviations, and a raw malformed stream); distinct = distinct (label, abstract token, answer); '
             'non-trivial = every case except the raw malformed stream',
        assumptions=['numeric claims outside +-4e18 are outside the compared domain (Go float to int64 conversion is implementation-defined there)'],
        explanation='Lean theorem verify_iff (staged verifier in the code\'s order <=> flat statement of the property) with corollaries per deviation class and accept_interval; tie: accept/reject of every generated token replayed on the abstract description; oracle: reference verifier = the property\'s iff, both directions',
    ),
    'C12': dict(
        family='cache', fields=['r', 'len', 'order', 'items', 'elems'], facts=CACHE_FACTS, trusted=CACHE_TRUSTED,
        rule='one case = one Set/Get/Delete/Cleanup/tick step on the real Cache in virtual time (families: dense tiny caches, boundary lifetimes, '
             'expired-first eviction, LRU at capacity 500, uniform mix); distinct = distinct (operation, key, value, ttl, observed result incl. full LRU order for tiny caches); '
             'non-trivial = every step except a miss on a key the reference never held',
        assumptions=['a clock that never runs backwards', 'values are compared by identity of the stored operation index'],
        explanation='Lean theorems over all histories and capacities (get_sound, nonpositive_invisible, cleanup_*, get_complete, get_complete_live: live entries fit the capacity); the driver executes the three-structure model Oidc.CacheImpl (simulation R_run to the abstract list): answer, size and the keys of items/order/elems of every step are compared; reference-map oracles on the implementation incl. live-capacity loss and owners/cleaners under real concurrency',
    ),
    'C13': dict(
        family='cache', fields=['r', 'len', 'order', 'items', 'elems'], facts=CACHE_FACTS + ['cacheLockedMethods', 'cacheUnlockedMethods', 'cachePrivateCalledOnlyLocked'], trusted=CACHE_TRUSTED,
        race=True,
        rule='as C12; additionally every Set of a new key into a full cache is judged by the eviction oracle (exactly one victim, expired first, else LRU by an independent recency log), '
             'and 2-16 goroutines hammer one cache (value/key tagging, post-quiescence consistency through the snapshot hook; -race build in the thorough tier)',
        assumptions=['whole-operation atomicity rests on the regenerated lock-discipline fact (every exported method: Lock(); defer Unlock() first)',
                     'data-race and deadlock freedom of the Go runtime objects are supported by the -race stress run, not proved'],
        explanation='Lean theorems size_le_cap, evict_exactly_one, live_survives_if_expired_exists, lru_loss, interleaving_is_history, impl_refines (the three structures of cache.go simulate the abstract list), three_structures_consistent; tie as C12 (all three structures compared step by step); concurrent owners/cleaners oracle',
    ),
    'C14': dict(
        family='verify', driver_family='verify', fields=['r'], facts=['blacklistDurationSec', 'skewFutureSec', 'defaultMaxSize', 'cacheGetExpiry'],
        trusted=['the verdict of a from-scratch verification is the reference verdict by construction of each token (C02 ties it to the code)',
                 'golang.org/x/time/rate token-bucket arithmetic (float64; compared away from the admission threshold)'],
        rule='one case = one VerifyToken/RevokeToken step on a real instance in virtual time (3-13 tokens per scenario: valid short/long-lived, becoming valid later, bad signature, '
             'foreign issuer/audience, no sub, garbage; with/without/shared jti; waits from 0 to 49 h; low-limit scenarios); distinct = distinct (op, token kind, answer); '
             'non-trivial = all steps',
        assumptions=['histories stay within the capacity (500) of the revocation list, as the property states', 'clock non-decreasing'],
        explanation='Lean theorems over all histories (history_valid_implies_scratch, failed_never_cached, revoke_immediate, revTTL_covers); tie: step-by-step replay of VerifyToken/RevokeToken answers; reference oracle: accepted => reference verdict at that instant and never revoked before',
    ),
    'C19': dict(
        family='limiter', driver_family='verify', fields=['r'], facts=['limiterRateIsConfigPerSecond', 'limiterBurstIsConfig'],
        trusted=['golang.org/x/time/rate computes in float64 and truncates waits to whole nanoseconds: decisions within (r + 2e5)e-9 tokens of the threshold are followed, not compared'],
        rule='one case = one VerifyToken arrival of a fresh correctly signed token (patterns: steady at/below the limit, drain-then-overload, bursts with idle gaps, just above the limit, '
             'refused-then-retried, random; limits 10/37/100/1000/random) plus 20R requests on an authenticated session; distinct = distinct (pattern step, answer); non-trivial = all steps',
        assumptions=['arrival instants are those of the virtual clock', 'exact-threshold arrivals are excluded from comparison (never compare floats)'],
        explanation='Lean theorems upper / upper_one_second (at most 2R per one-second window), steady_admitted, inv_run, refused_not_performed; tie: admit/refuse sequence replayed by the integer token-bucket model; oracles: sliding-window count, steady streams never refused, sustained admission under overload, session traffic unlimited',
    ),
}

for _k, _v in PROPS.items():
    _v.setdefault('nt_default', True)

# the decision functions whose regenerated shape (facts skel_<f>, pinned in lean/Oidc/Shapes.lean) each property's theorems rest on
SHAPES = {
    'C01': ['ServeHTTP', 'isUserAuthenticated', 'processAuthorizedRequest'],
    'C03': ['handleCallback', 'defaultInitiateAuthentication'],
    'C06': ['processAuthorizedRequest', 'handleCallback', 'refreshToken'],
    'C08': ['ServeHTTP', 'isUserAuthenticated', 'refreshToken'],
    'C10': ['processAuthorizedRequest'],
    'C11': ['ServeHTTP', 'handleLogout', 'determineScheme', 'determineHost'],
    'C15': ['handleCallback', 'handleLogout', 'defaultInitiateAuthentication', 'determineScheme', 'determineHost'],
    'C17': ['ServeHTTP', 'handleExpiredToken', 'defaultInitiateAuthentication', 'handleCallback'],
    'C04': ['ServeHTTP'],
    'C16': ['sendErrorResponse'],
    'C20': ['ServeHTTP'],
}
for _k in ('C12', 'C13', 'C14'):
    PROPS[_k]['facts'] = list(PROPS[_k]['facts']) + ['text_Cache_' + _m for _m in ('Set', 'Get', 'Delete', 'Cleanup', 'evictOldest', 'removeItem')]
    PROPS[_k]['explanation'] += '; text obligations: the six cache.go methods read statement for statement as when Oidc.CacheImpl was written'
SESSION_TEXT = {'C07': ['compressToken', 'decompressToken', 'SessionManager_GetSession', 'SessionManager_getTokenChunkSessions', 'SessionData_Save', 'SessionData_deleteStaleChunkCookies', 'SessionData_Clear', 'SessionData_clearTokenChunks', 'SessionData_GetAccessToken', 'SessionData_SetAccessToken', 'SessionData_GetRefreshToken', 'SessionData_SetRefreshToken', 'SessionData_expireAccessTokenChunks', 'SessionData_expireRefreshTokenChunks', 'splitIntoChunks', 'SessionData_GetAuthenticated', 'SessionData_SetAuthenticated'], 'C09': ['deriveBlockKey', 'NewSessionManager', 'SessionManager_GetSession', 'SessionManager_getTokenChunkSessions'], 'C11': ['SessionData_Clear', 'SessionData_clearTokenChunks', 'SessionData_Save', 'SessionData_deleteStaleChunkCookies'], 'C17': ['SessionManager_GetSession', 'SessionManager_getTokenChunkSessions', 'SessionData_Clear', 'SessionData_GetAccessToken', 'SessionData_GetRefreshToken'], 'C18': ['SessionManager_getSessionOptions', 'SessionData_Save', 'SessionData_deleteStaleChunkCookies', 'SessionData_SetAccessToken', 'SessionData_SetRefreshToken', 'SessionData_expireAccessTokenChunks', 'SessionData_expireRefreshTokenChunks', 'splitIntoChunks', 'SessionData_Clear'], 'C04': ['SessionManager_GetSession', 'SessionManager_getTokenChunkSessions', 'SessionData_GetAccessToken', 'SessionData_GetAuthenticated']}
for _k, _fs in SESSION_TEXT.items():
    PROPS[_k]['facts'] = list(PROPS[_k].get('facts', [])) + ['text_' + _f for _f in _fs]
    PROPS[_k]['explanation'] += '; text obligations on session.go: ' + ', '.join(_fs)
OTHER_TEXT = {'C02': ['parseJWT', 'JWT_Verify', 'verifyAudience', 'verifyIssuer', 'verifyTimeConstraint', 'verifyExpiration', 'verifyIssuedAt', 'verifyNotBefore', 'verifySignature', 'JWKCache_GetJWKS', 'jwkToPEM', 'TraefikOidc_VerifyJWTSignatureAndClaims'], 'C14': ['TraefikOidc_VerifyToken', 'TraefikOidc_performPreVerificationChecks', 'TraefikOidc_RevokeToken', 'TokenCache_Set', 'TokenCache_Get', 'TokenCache_Delete', 'TokenCache_Cleanup', 'extractClaims'], 'C19': ['TraefikOidc_VerifyToken', 'TraefikOidc_performPreVerificationChecks'], 'C20': ['TraefikOidc_initializeMetadata', 'TraefikOidc_updateMetadataEndpoints', 'TraefikOidc_startMetadataRefresh', 'discoverProviderMetadata', 'fetchMetadata', 'MetadataCache_GetMetadata', 'MetadataCache_isCacheValid', 'MetadataCache_Cleanup'], 'C06': ['TraefikOidc_isAllowedDomain', 'TraefikOidc_extractGroupsAndRoles'], 'C15': ['isLocalRedirectTarget', 'buildFullURL'], 'C01': ['TraefikOidc_determineExcludedURL', 'TraefikOidc_VerifyJWTSignatureAndClaims'], 'C05': ['JWKCache_GetJWKS', 'JWKCache_Cleanup']}
for _k, _fs in OTHER_TEXT.items():
    PROPS[_k]['facts'] = list(PROPS[_k].get('facts', [])) + ['text_' + _f for _f in _fs]
    PROPS[_k]['explanation'] += '; text obligations: ' + ', '.join(_fs)
MORE_TEXT = {'C14': ['TraefikOidc_cacheVerifiedToken', 'New'], 'C20': ['createDefaultHTTPClient'], 'C15': ['TraefikOidc_buildAuthURL', 'TraefikOidc_buildURLWithParams', 'BuildLogoutURL', 'New'], 'C11': ['BuildLogoutURL'], 'C05': ['TraefikOidc_buildURLWithParams', 'New'], 'C01': ['New'], 'C19': ['New'], 'C10': ['New'], 'C09': ['New'], 'C03': ['TraefikOidc_buildAuthURL']}
for _k, _fs in MORE_TEXT.items():
    PROPS[_k]['facts'] = list(PROPS[_k].get('facts', [])) + ['text_' + _f for _f in _fs if 'text_' + _f not in PROPS[_k].get('facts', [])]
HELPER_TEXT = {'C02': ['TraefikOidc_updateMetadataEndpoints', 'TraefikOidc_verifyToken', 'fetchJWKS', 'rsaJWKToPEM', 'ecJWKToPEM'], 'C05': ['fetchJWKS', 'TraefikOidc_startTokenCleanup', 'createStringMap'], 'C06': ['createStringMap', 'New', 'SessionData_GetEmail', 'SessionData_SetEmail'], 'C01': ['createStringMap', 'Config_Validate'], 'C03': ['SessionData_GetCSRF', 'SessionData_SetCSRF', 'SessionData_GetNonce', 'SessionData_SetNonce', 'SessionData_GetCodeVerifier', 'SessionData_SetCodeVerifier', 'deriveCodeChallenge', 'generateCodeVerifier', 'generateNonce', 'generateSecureRandomString', 'TraefikOidc_ExchangeCodeForToken', 'TraefikOidc_exchangeCodeForToken', 'TraefikOidc_exchangeTokens'], 'C04': ['TraefikOidc_ExchangeCodeForToken', 'TraefikOidc_exchangeCodeForToken', 'TraefikOidc_exchangeTokens', 'SessionData_SetEmail', 'SessionData_GetIncomingPath', 'SessionData_SetIncomingPath'], 'C07': ['SessionData_GetCSRF', 'SessionData_SetCSRF', 'SessionData_GetNonce', 'SessionData_SetNonce', 'SessionData_GetCodeVerifier', 'SessionData_SetCodeVerifier', 'SessionData_GetEmail', 'SessionData_SetEmail', 'SessionData_GetIncomingPath', 'SessionData_SetIncomingPath'], 'C08': ['TraefikOidc_GetNewTokenWithRefreshToken', 'TraefikOidc_getNewTokenWithRefreshToken', 'TraefikOidc_exchangeTokens', 'SessionData_SetEmail', 'SessionData_GetEmail'], 'C09': ['Config_Validate', 'CreateConfig'], 'C10': ['handleError'], 'C11': ['TraefikOidc_RevokeTokenWithProvider'], 'C12': ['NewCache', 'Cache_Close', 'Cache_startAutoCleanup', 'autoCleanupRoutine'], 'C13': ['NewCache', 'Cache_Close', 'Cache_startAutoCleanup', 'autoCleanupRoutine'], 'C14': ['NewTokenCache', 'cleanupReplayCache', 'TraefikOidc_startTokenCleanup', 'TraefikOidc_RevokeTokenWithProvider'], 'C15': ['Config_Validate', 'isValidSecureURL'], 'C16': ['handleError'], 'C17': ['Config_Validate'], 'C19': ['Config_Validate', 'CreateConfig'], 'C20': ['NewMetadataCache', 'MetadataCache_Close', 'MetadataCache_startAutoCleanup', 'isValidSecureURL']}
for _k, _fs in HELPER_TEXT.items():
    PROPS[_k]['facts'] = list(PROPS[_k].get('facts', [])) + ['text_' + _f for _f in _fs if 'text_' + _f not in PROPS[_k].get('facts', [])]
for _k, _fs in SHAPES.items():
    PROPS[_k]['facts'] = list(PROPS[_k].get('facts', [])) + ['skel_' + _f for _f in _fs]
    PROPS[_k]['explanation'] += '; shape obligations: ' + ', '.join('Shape_' + _f for _f in _fs)

# functions translated from the Go source by tools/go2lean on every run (lean/Oidc/Generated/Code.lean) and proved equal to the
# model in lean/Oidc/Proofs/Code*.lean; the property files state their theorems about the translated code as code_*
TRANSLATED = {
    'C01': ['determineExcludedURL', 'isUserAuthenticated', 'VerifyJWTSignatureAndClaims', 'Config.Validate'],
    'C09': ['Config.Validate'],
    'C02': ['JWT.Verify', 'verifyIssuer', 'verifyAudience', 'verifyExpiration', 'verifyIssuedAt', 'verifyNotBefore', 'verifyTimeConstraint', 'VerifyJWTSignatureAndClaims'],
    'C05': ['JWKCache.GetJWKS', 'JWKCache.Cleanup'],
    'C04': ['isUserAuthenticated', 'SessionData.SetAuthenticated', 'SessionData.GetAuthenticated'],
    'C06': ['isAllowedDomain', 'extractGroupsAndRoles', 'SessionData.SetEmail', 'SessionData.GetEmail'],
    'C03': ['SessionData.SetCSRF', 'SessionData.GetCSRF', 'SessionData.SetNonce', 'SessionData.GetNonce', 'SessionData.SetCodeVerifier', 'SessionData.GetCodeVerifier'],
    'C07': ['splitIntoChunks', 'SessionData.SetAccessToken', 'SessionData.GetAccessToken', 'SessionData.expireAccessTokenChunks', 'SessionData.SetRefreshToken', 'SessionData.GetRefreshToken', 'SessionData.expireRefreshTokenChunks'],
    'C08': ['isUserAuthenticated'],
    'C11': ['determineScheme', 'determineHost'],
    'C12': ['Cache.Set', 'Cache.Get', 'Cache.Delete', 'Cache.Cleanup', 'Cache.evictOldest', 'Cache.removeItem', 'TokenCache.Set', 'TokenCache.Get', 'TokenCache.Delete', 'TokenCache.Cleanup'],
    'C13': ['Cache.Set', 'Cache.Get', 'Cache.Delete', 'Cache.Cleanup', 'Cache.evictOldest', 'Cache.removeItem'],
    'C14': ['VerifyToken', 'performPreVerificationChecks', 'cacheVerifiedToken', 'RevokeToken', 'TokenCache.Set', 'TokenCache.Get', 'TokenCache.Delete', 'the six methods of cache.go', 'VerifyJWTSignatureAndClaims'],
    'C15': ['isLocalRedirectTarget', 'buildFullURL', 'determineScheme', 'determineHost', 'Config.Validate'],
    'C18': ['splitIntoChunks', 'SessionManager.getSessionOptions'],
    'C19': ['VerifyToken', 'performPreVerificationChecks', 'Config.Validate'],
    'C20': ['discoverProviderMetadata', 'MetadataCache.GetMetadata', 'MetadataCache.isCacheValid', 'MetadataCache.Cleanup'],
}
for _k, _fs in TRANSLATED.items():
    PROPS[_k]['explanation'] += '; translated from the source on every run (tools/go2lean) and proved equal to the model: ' + ', '.join(_fs)
    PROPS[_k]['technique'] = ('Lean 4 theorems about an executable model; the decision functions ' + ', '.join(_fs) + ' are translated from the Go source into Lean on every run and '
                              'proved equal to the model (refinement theorems re-checked each run); regenerated facts and program-text obligations for the rest; '
                              'differential correspondence of the real code with the Lean driver; reference oracles for the failing-input search')
