#!/bin/bash
# runs every claimed check on /repo as it is (quick tier unless VERIF_TIER is set) and summarises; use on the unchanged tree before committing evidence
cd /verif
if ! git -C /repo diff --quiet; then echo "WARNING: /repo has uncommitted changes"; fi
ids=$(python3 -c "import sys; sys.path.insert(0,'lib'); import props; print(' '.join(sorted(props.PROPS)))")
[ $# -gt 0 ] && ids="$@"
fail=0
for p in $ids; do
  out=$(./check $p 2>&1); rc=$?
  echo "$out" | grep -E "^VIOLATION|^KNOWN|^$p:" | cut -c1-220
  [ $rc -ne 0 ] && fail=1
done
python3-vt lib/validate.py | grep -v "^ok"
python3 - <<'PY'
import json,glob
for f in sorted(glob.glob('/verif/evidence/*.json')):
    e=json.load(open(f)); c=e['coverage']
    if c['obligations']!=c['discharged'] or e.get('violations'):
        print('EVIDENCE NOT CLEAN', e['property_id'], c['obligations'], c['discharged'], e.get('violations'))
PY
exit $fail
