#!/bin/bash
# Confirms a seeded change and runs the checks against it.
#   lib/seed_eval.sh <seed-id> <property> <dir-with-patch.diff-demo_test.go-notes.md> [other properties to run as well...]
# 1. scratch worktree: patch applies, builds, the full existing suite passes, TestDemo fails with the patch and passes without;
# 2. patch applied to /repo's working tree (never committed), ./check <property> run, tree restored;
# 3. files + meta.json stored under /verif/seeded/<seed-id>/.
set -u
id=$1; prop=$2; src=$3; shift 3; others="$@"
export GOFLAGS=-mod=mod GOPROXY=off GOSUMDB=off
# VERIF_ROOT: the copy of /verif whose checks are run (default /verif); EVAL_REPO: the tree the patch is applied to for the
# checks (default /repo; a scratch worktree of /repo lets an evaluation run while /verif is being worked on)
VR=${VERIF_ROOT:-/verif}; RP=${EVAL_REPO:-/repo}
cd $VR
wt=/tmp/confirm/$id
res() { echo "$1=$2" >> /tmp/confirm/$id.res; }
if [ -n "${SKIP_CONFIRM:-}" ] && [ -f seeded/$id/meta.json ]; then
  # re-run of the checks only: keep the recorded confirmation
  python3 -c "
import json
m=json.load(open('seeded/$id/meta.json'))
open('/tmp/confirm/$id.res','w').write(''.join(f'{k}={v}\n' for k,v in m['confirmation'].items() if not k.startswith('check_')))"
  src=$VR/seeded/$id
else
rm -rf $wt; git -C /repo worktree prune; git -C /repo worktree add -q --detach $wt HEAD || exit 2
res() { echo "$1=$2" >> /tmp/confirm/$id.res; }
rm -f /tmp/confirm/$id.res
( cd $wt && git apply $src/patch.diff ) && res applies yes || { res applies no; git -C /repo worktree remove --force $wt; exit 1; }
( cd $wt && go build ./... ) && res builds yes || res builds no
suite=$(cd $wt && go test -vet=off -count=1 -json ./... 2>/dev/null | python3 -c "
import sys,json
p=set();f=set()
for l in sys.stdin:
    try: d=json.loads(l)
    except: continue
    if d.get('Test') and d.get('Action') in('pass','fail'): (p if d['Action']=='pass' else f).add(d['Test'])
print(len(p),len(f),','.join(sorted(f))[:200])")
res suite_pass_fail "$suite"
cp $src/demo_test.go $wt/zz_demo_test.go
( cd $wt && go test -vet=off -count=1 -run '^TestDemo$' . >/tmp/confirm/$id.demo_with.txt 2>&1 ) && res demo_with_patch PASS || res demo_with_patch FAIL
( cd $wt && git checkout -q -- . && go test -vet=off -count=1 -run '^TestDemo$' . >/tmp/confirm/$id.demo_without.txt 2>&1 ) && res demo_without_patch PASS || res demo_without_patch FAIL
git -C /repo worktree remove --force $wt
fi
# ---- run the checks against it
if ! git -C $RP diff --quiet; then echo "$RP dirty"; exit 2; fi
rm -rf build/evidence.keep && cp -r evidence build/evidence.keep
# (a later fix: commit may have touched neighbouring lines: fall back to a three-way application; a patch that cannot be applied
# at all is reported and the recorded detection history is left alone)
if ! git -C $RP apply $src/patch.diff 2>/dev/null; then
  if ! git -C $RP apply --3way $src/patch.diff 2>/dev/null; then
    echo "PATCH DOES NOT APPLY to $RP (conflicts with a later commit): $id"; git -C $RP checkout -- . ; git -C $RP reset -q --hard 2>/dev/null
    rm -rf evidence && cp -r build/evidence.keep evidence; exit 3
  fi
  git -C $RP reset -q 2>/dev/null   # (three-way application stages the result: keep it in the working tree only)
fi
for p in $prop $others; do
  out=$(VERIF_REPO=$RP ./check $p 2>&1)
  echo "$out" | grep -E "^VIOLATION|^KNOWN|^$p:" | cut -c1-250 > /tmp/confirm/$id.check_$p.txt
  n=$(grep -c "^VIOLATION" /tmp/confirm/$id.check_$p.txt); c=$(grep "^VIOLATION" /tmp/confirm/$id.check_$p.txt | grep -vc "no-failing-input-found")
  res check_$p "violations=$n concrete=$c"
  if [ "$p" = "$prop" ]; then mkdir -p seeded/$id; first=$(grep -m1 "^VIOLATION" /tmp/confirm/$id.check_$p.txt | sed 's/.*replay=\([^ ]*\).*/\1/'); [ -n "$first" ] && [ -f "$first" ] && python3 -c "
import json,sys
d=json.load(open('$first'))
def short(v,n=0):
    if isinstance(v,str): return v if len(v)<300 else v[:300]+'...'
    if isinstance(v,list): return [short(x,n+1) for x in v[:40]]
    if isinstance(v,dict): return {k:short(x,n+1) for k,x in v.items()}
    return v
json.dump(short(d),open('seeded/$id/first_violation_replay.json','w'),indent=1)"; fi
done
git -C $RP checkout -- .
rm -rf evidence && cp -r build/evidence.keep evidence
mkdir -p seeded/$id
[ "$src" != "$VR/seeded/$id" ] && { cp $src/patch.diff seeded/$id/patch.diff; cp $src/demo_test.go seeded/$id/demo_test.go; cp $src/notes.md seeded/$id/notes.md 2>/dev/null; }
python3 - <<PY
import json
r=dict(l.strip().split('=',1) for l in open('/tmp/confirm/$id.res'))
meta={'seed_id':'$id','property':'$prop','source':'independent sub-agent given only the property text and a scratch worktree','confirmation':r,
      'confirmed': r.get('applies')=='yes' and r.get('builds')=='yes' and r.get('suite_pass_fail','').startswith('207 0') and r.get('demo_with_patch')=='FAIL' and r.get('demo_without_patch')=='PASS',
      'what_was_run':'lib/seed_eval.sh: scratch worktree (git apply, go build, full suite, TestDemo with and without the patch), then patch applied to /repo working tree, ./check run, tree restored',
      'checks':{k[6:]:v for k,v in r.items() if k.startswith('check_')}}
# keep what was recorded by hand (change, needs_to_manifest) and the detection history; append this evaluation to it
import os, subprocess
mp='$VR/seeded/$id/meta.json'
prev=json.load(open(mp)) if os.path.exists(mp) else {}
for k in ('change','needs_to_manifest','detection_history'):
    if k in prev: meta[k]=prev[k]
try: commit=subprocess.run(['git','-C','/verif','rev-parse','--short','HEAD'],capture_output=True,text=True).stdout.strip()
except Exception: commit='?'
hist=meta.get('detection_history',[])
if isinstance(hist,str): hist=[{'note':hist}]
meta['detection_history']=hist
entry={'machinery_commit':commit,'checks':meta['checks']}
if not hist or hist[-1].get('checks')!=entry['checks']: hist.append(entry)
json.dump(meta,open(mp,'w'),indent=1)
print(json.dumps(meta,indent=1))
PY
