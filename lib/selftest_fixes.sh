#!/bin/bash
# Self-test: reverse-apply each "fix:" commit of /repo to the working tree (never committed), run the check of the property it
# repaired, expect a VIOLATION, restore the tree. Usage: lib/selftest_fixes.sh [ID:commit ...]
cd /verif
# evidence files are rewritten by every check run: keep the clean-tree evidence and put it back afterwards
rm -rf build/evidence.keep && cp -r evidence build/evidence.keep
trap 'rm -rf /verif/evidence && cp -r /verif/build/evidence.keep /verif/evidence' EXIT
pairs=("$@")
if [ ${#pairs[@]} -eq 0 ]; then
  pairs=(C01:f71956b C02:942e253 C04:454415d C02:035ef8a C10:f18778e C14:c486d2e C15:799e51d C16:5610a1f C17:ddad393 C17:896f37a C17:988ef59 C19:2972ab6 C12:7e55efc C17:69b2647 C10:d605ff8 C05:7ee45e5 C07:8476782 C09:dfe8f2a C20:e1e20f7 C18:10bc6da C18:8595b28 C02:bfbdbb1 C20:6ef84f8)
fi
for pc in "${pairs[@]}"; do
  p=${pc%%:*}; c=${pc##*:}
  if ! git -C /repo diff --quiet; then echo "repo dirty, abort"; exit 2; fi
  git -C /repo show $c -- . | git -C /repo apply -R 2>/tmp/selftest_apply.err || { echo "$p $c: cannot reverse-apply: $(head -2 /tmp/selftest_apply.err)"; git -C /repo checkout -- .; continue; }
  (cd /repo && go build ./... 2>&1 | head -3)
  out=$(./check $p 2>&1 | grep -E "^VIOLATION|^KNOWN|^$p:" | cut -c1-260)
  git -C /repo checkout -- .
  n=$(echo "$out" | grep -c "^VIOLATION")
  nf=$(echo "$out" | grep "^VIOLATION" | grep -vc "no-failing-input-found")
  echo "== $p revert $c: violations=$n concrete=$nf"
  echo "$out" | tail -3
done
