#!/usr/bin/env python3
"""print the scenario(s) containing the given global request-step numbers: showscn.py <trace> <step> [<step>...]"""
import json, sys
want = [int(x) for x in sys.argv[2:]]
n = 0; buf = []; cur = None
def flush():
    if cur and any(cur[0] <= w <= cur[1] for w in want):
        print('\n'.join(buf)); print('=====')
for l in open(sys.argv[1]):
    o = json.loads(l)
    if o.get('op') == 'cfg':
        flush()
        buf = []; cur = [n + 1, n]
        buf.append(str(('cfg', 'tmpl', o['templates'], 'roles', o['allowRoles'], 'dom', o['allowDomains'], 'excl', o['excluded'], 'grace', o['grace'], 'pkce', o['pkce'], 'postLogout', o['postLogout'], 'es', o['endSession'])))
        continue
    if cur is None:
        continue
    if 'obs' in o:
        n += 1; cur[1] = n
        ob = o['obs']
        sh = lambda v: v if not isinstance(v, str) or len(v) < 24 else v[:24] + '..'
        buf.append(f"{n} REQ {o['method']} {o['line'][:80]} b{o['b']} i{o['i']} now={o['now']} json={o['json']} note={o.get('note')} x={o.get('exchange')} rf={o.get('refresh')}\n      -> {ob['class']} {ob.get('code','')} {ob.get('loc','')} calls={ob['calls']} hdrs={ob.get('hdrs')} jar=" + str({k: sh(v) for k, v in ob['jar'].items()}))
    elif o.get('op') == 'tok':
        buf.append(f"   tok {o['id']} clen={o.get('clen')} exp={o.get('exp')} acc=[{o.get('accFrom')},{o.get('accTo')}] valid={o.get('valid')} email={o.get('email')} groups={o.get('groups')} roles={o.get('roles')} jti={o.get('jti')}")
    elif o.get('op') == 'oracle':
        buf.append(f"   ORACLE {o['prop']} {o['sig']} {json.dumps(o.get('detail'))[:300]}")
    elif o.get('op') not in ('stat', 'done'):
        buf.append('   ' + str(o))
flush()
