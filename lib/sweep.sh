#!/bin/bash
# seed sweep on the unchanged tree (meant for `vp run --with-repo -- lib/sweep.sh 2 3 4 5`): any VIOLATION line is a false alarm to investigate
cd "$(dirname "$0")/.."
[ -n "$VP_RUN_REPO" ] && export VERIF_REPO=$VP_RUN_REPO
ids=$(python3 -c "import sys; sys.path.insert(0,'lib'); import props; print(' '.join(sorted(props.PROPS)))")
for s in "$@"; do
  for p in $ids; do
    out=$(VERIF_SEED=$s VERIF_TIER=${TIER:-quick} ./check $p --tier ${TIER:-quick} 2>&1)
    echo "seed=$s $(echo "$out" | grep -E "^$p:" )"
    echo "$out" | grep -E "^VIOLATION" | sed "s/^/  seed=$s /"
    if echo "$out" | grep -q "^VIOLATION"; then
      mkdir -p sweep_replays; cp -r build/replays/$p sweep_replays/$p-seed$s 2>/dev/null
    fi
  done
done
