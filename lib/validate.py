#!/usr/bin/env python3
"""validate MANIFEST.json and evidence/*.json against the schemas in /root/.vp (python3-vt has jsonschema)"""
import json, sys, glob
import jsonschema
ok = True
def v(path, schema):
    global ok
    try:
        jsonschema.validate(json.load(open(path)), json.load(open(schema)))
        print('ok ', path)
    except Exception as e:
        ok = False
        print('BAD', path, str(e)[:400])
import os
if os.path.exists('/verif/MANIFEST.json'):
    v('/verif/MANIFEST.json', '/root/.vp/MANIFEST.schema.json')
for f in sorted(glob.glob('/verif/evidence/*.json')):
    v(f, '/root/.vp/EVIDENCE.schema.json')
sys.exit(0 if ok else 1)
