#!/bin/bash
# Offline build of the framework from files on disk (MANIFEST.setup_cmd). Idempotent.
set -e
cd "$(dirname "$0")"
export GOTOOLCHAIN=local GOPROXY=off GOSUMDB=off
mkdir -p build evidence
(cd tools/facts && GOFLAGS=-mod=mod go build -o ../../build/facts .)
./build/facts /repo lean/Oidc/Generated/Facts.lean build/facts.json build/dict.json
(cd tools/go2lean && GOFLAGS=-mod=mod go build -o ../../build/go2lean .)
./build/go2lean /repo lean/Oidc/Generated/Code.lean
(cd lean && lake build Oidc driver)
python3 - <<'PY'
import json, glob, os
ov = {}
for f in glob.glob('/verif/harness/*.go') + glob.glob('/verif/harness/hooks/*.go'):
    ov['/repo/' + os.path.basename(f)] = f
json.dump({'Replace': ov}, open('/verif/build/overlay.json', 'w'), indent=1)
PY
(cd /repo && GOFLAGS= go1.26.8 test -c -vet=off -tags verifhooks -overlay /verif/build/overlay.json -o /verif/build/harness.test .)
echo setup-ok
