module verif/facts

go 1.23
