// facts: go/ast fact extractor for /repo (standard library only).
//
// usage: facts <repo-dir> <out.lean> <out.json> <dict.json>
//
// Reads the non-test .go files of the package in <repo-dir> (and three vendored files) and writes
//   - a Lean module `Oidc.Generated.Facts` with one `def` per fact (regenerated part of the model),
//   - the same facts as JSON with source positions (for evidence),
//   - a dictionary of string literals the handler compares against (for the generators).
//
// A shape the extractor does not recognise is never defaulted: the fact is listed in `missing`,
// `factsComplete` becomes false and every `GoodFacts` obligation opens.
package main

import (
	"hash/fnv"
	"bytes"
	"encoding/json"
	"fmt"
	"go/ast"
	"go/parser"
	"go/printer"
	"go/token"
	"os"
	"path/filepath"
	"reflect"
	"sort"
	"strconv"
	"strings"
)

type fact struct {
	Name  string `json:"name"`
	Type  string `json:"type"` // Nat | Int | Bool | String | List String
	Lean  string `json:"lean"` // Lean term
	Pos   string `json:"pos"`
	Raw   string `json:"raw"`
	Found bool   `json:"found"`
}

var (
	fset  = token.NewFileSet()
	facts = map[string]*fact{}
	order []string
)

func declare(name, typ, dflt string) {
	facts[name] = &fact{Name: name, Type: typ, Lean: dflt}
	order = append(order, name)
}

func set(name, lean string, n ast.Node, raw string) {
	f := facts[name]
	if f == nil {
		panic("undeclared fact " + name)
	}
	if f.Found && f.Lean != lean {
		// two sites disagree: treat as not extractable
		f.Lean = facts[name].Lean
		f.Raw += " | CONFLICT " + raw
		f.Found = false
		f.Pos += " CONFLICT"
		return
	}
	f.Lean, f.Found, f.Raw = lean, true, raw
	if n != nil {
		p := fset.Position(n.Pos())
		f.Pos = fmt.Sprintf("%s:%d", filepath.Base(p.Filename), p.Line)
	}
}

func src(n ast.Node) string {
	if n == nil {
		return ""
	}
	var b bytes.Buffer
	printer.Fprint(&b, fset, n)
	return strings.Join(strings.Fields(b.String()), " ")
}

// evalInt evaluates integer constant expressions built from literals, * + - / ( ), named time units
// and previously seen named constants. Durations are in nanoseconds.
var consts = map[string]int64{
	"time.Nanosecond": 1, "time.Microsecond": 1000, "time.Millisecond": 1000000,
	"time.Second": 1000000000, "time.Minute": 60000000000, "time.Hour": 3600000000000,
}

func evalInt(e ast.Expr) (int64, bool) {
	switch x := e.(type) {
	case *ast.BasicLit:
		if x.Kind == token.INT {
			v, err := strconv.ParseInt(x.Value, 0, 64)
			return v, err == nil
		}
	case *ast.ParenExpr:
		return evalInt(x.X)
	case *ast.Ident:
		v, ok := consts[x.Name]
		return v, ok
	case *ast.SelectorExpr:
		v, ok := consts[src(x)]
		return v, ok
	case *ast.UnaryExpr:
		if v, ok := evalInt(x.X); ok && x.Op == token.SUB {
			return -v, true
		}
	case *ast.BinaryExpr:
		a, ok1 := evalInt(x.X)
		b, ok2 := evalInt(x.Y)
		if !ok1 || !ok2 {
			return 0, false
		}
		switch x.Op {
		case token.MUL:
			return a * b, true
		case token.ADD:
			return a + b, true
		case token.SUB:
			return a - b, true
		case token.QUO:
			if b != 0 {
				return a / b, true
			}
		}
	case *ast.CallExpr:
		// int(x), int64(x), time.Duration(x)
		if len(x.Args) == 1 {
			switch src(x.Fun) {
			case "int", "int64", "time.Duration":
				return evalInt(x.Args[0])
			}
		}
	}
	return 0, false
}

func leanStr(s string) string { return strconv.Quote(s) }

func leanStrList(l []string) string {
	q := make([]string, len(l))
	for i, s := range l {
		q[i] = leanStr(s)
	}
	return "[" + strings.Join(q, ", ") + "]"
}

func parseFile(path string) *ast.File {
	f, err := parser.ParseFile(fset, path, nil, parser.ParseComments)
	if err != nil {
		fmt.Fprintln(os.Stderr, "facts: parse error:", err)
		os.Exit(2)
	}
	return f
}

// expiry comparison shape of an expression that tests "item has expired at `now`"
//   X.After(item.ExpiresAt)      -> strict   (now >  exp)
//   !X.Before(item.ExpiresAt)    -> nonstrict(now >= exp)
func expiryShape(e ast.Expr) string {
	switch x := e.(type) {
	case *ast.ParenExpr:
		return expiryShape(x.X)
	case *ast.UnaryExpr:
		if x.Op == token.NOT {
			if c, ok := x.X.(*ast.CallExpr); ok {
				if s, ok := c.Fun.(*ast.SelectorExpr); ok && s.Sel.Name == "Before" && len(c.Args) == 1 && strings.HasSuffix(src(c.Args[0]), "ExpiresAt") {
					return "nonstrict"
				}
			}
		}
	case *ast.CallExpr:
		if s, ok := x.Fun.(*ast.SelectorExpr); ok && s.Sel.Name == "After" && len(x.Args) == 1 && strings.HasSuffix(src(x.Args[0]), "ExpiresAt") {
			recv := src(s.X)
			if recv == "now" || recv == "time.Now()" {
				return "strict"
			}
		}
	}
	return "other"
}

func shapeLean(s string) string {
	switch s {
	case "strict":
		return ".strict"
	case "nonstrict":
		return ".nonstrict"
	}
	return ".other"
}

// the decision functions whose shape is a regenerated fact (skel_<name>)
var skeletonFuncs = []string{"ServeHTTP", "handleCallback", "processAuthorizedRequest", "isUserAuthenticated", "refreshToken", "handleLogout", "defaultInitiateAuthentication", "handleExpiredToken", "sendErrorResponse", "determineScheme", "determineHost"}

var cacheTextMethods = []string{"Set", "Get", "Delete", "Cleanup", "evictOldest", "removeItem"}

var sessionTextFuncs = []string{
	// jwt.go / jwk.go (model Oidc.Jwt)
	"parseJWT", "JWT.Verify", "verifyAudience", "verifyIssuer", "verifyTimeConstraint", "verifyExpiration", "verifyIssuedAt", "verifyNotBefore", "verifySignature",
	"JWKCache.GetJWKS", "JWKCache.Cleanup", "jwkToPEM", "TraefikOidc.VerifyJWTSignatureAndClaims",
	// token verification, caches, limiter (model Oidc.Verify, Oidc.Limiter)
	"TraefikOidc.VerifyToken", "TraefikOidc.performPreVerificationChecks", "TraefikOidc.RevokeToken", "TraefikOidc.cacheVerifiedToken", "TokenCache.Set", "TokenCache.Get", "TokenCache.Delete", "TokenCache.Cleanup", "extractClaims",
	// discovery (model Oidc.Discovery)
	"TraefikOidc.initializeMetadata", "TraefikOidc.updateMetadataEndpoints", "TraefikOidc.startMetadataRefresh", "discoverProviderMetadata", "fetchMetadata",
	"MetadataCache.GetMetadata", "MetadataCache.isCacheValid", "MetadataCache.Cleanup", "createDefaultHTTPClient",
	// claims and allow-lists (model Oidc.Strings, Handler.extract)
	"TraefikOidc.isAllowedDomain", "TraefikOidc.extractGroupsAndRoles", "isLocalRedirectTarget", "buildFullURL", "TraefikOidc.determineExcludedURL", "TraefikOidc.buildAuthURL", "TraefikOidc.buildURLWithParams", "BuildLogoutURL", "New",
	// session.go (models Oidc.Session, Oidc.Codec)
	"compressToken", "decompressToken", "deriveBlockKey", "NewSessionManager", "SessionManager.getSessionOptions", "SessionManager.GetSession",
	"SessionManager.getTokenChunkSessions", "SessionData.Save", "SessionData.deleteStaleChunkCookies", "SessionData.Clear", "SessionData.clearTokenChunks",
	"SessionData.GetAccessToken", "SessionData.SetAccessToken", "SessionData.GetRefreshToken", "SessionData.SetRefreshToken",
	"SessionData.expireAccessTokenChunks", "SessionData.expireRefreshTokenChunks", "splitIntoChunks", "SessionData.GetAuthenticated", "SessionData.SetAuthenticated",
	// the remaining session fields
	"SessionData.GetCSRF", "SessionData.SetCSRF", "SessionData.GetNonce", "SessionData.SetNonce", "SessionData.GetCodeVerifier", "SessionData.SetCodeVerifier",
	"SessionData.GetEmail", "SessionData.SetEmail", "SessionData.GetIncomingPath", "SessionData.SetIncomingPath",
	// constructors, background routines, configuration
	"NewCache", "Cache.Close", "Cache.startAutoCleanup", "autoCleanupRoutine", "NewTokenCache", "NewMetadataCache", "MetadataCache.Close", "MetadataCache.startAutoCleanup",
	"TraefikOidc.startTokenCleanup", "cleanupReplayCache", "Config.Validate", "CreateConfig", "isValidSecureURL", "isValidLogLevel", "createStringMap",
	// token endpoint and key material
	"TraefikOidc.ExchangeCodeForToken", "TraefikOidc.GetNewTokenWithRefreshToken", "TraefikOidc.RevokeTokenWithProvider", "TraefikOidc.exchangeCodeForToken",
	"TraefikOidc.exchangeTokens", "TraefikOidc.getNewTokenWithRefreshToken", "TraefikOidc.verifyToken", "fetchJWKS", "rsaJWKToPEM", "ecJWKToPEM",
	"deriveCodeChallenge", "generateCodeVerifier", "generateNonce", "handleError", "generateSecureRandomString"}

func main() {
	if len(os.Args) != 5 {
		fmt.Fprintln(os.Stderr, "usage: facts <repo> <out.lean> <out.json> <dict.json>")
		os.Exit(2)
	}
	repo := os.Args[1]

	// ---- declarations (defaults are only placeholders; an unfound fact makes factsComplete false)
	declare("maxCookieSize", "Nat", "0")
	declare("absoluteSessionTimeoutSec", "Int", "0")
	declare("minEncryptionKeyLength", "Nat", "0")
	declare("mainCookieName", "String", `""`)
	declare("accessTokenCookie", "String", `""`)
	declare("refreshTokenCookie", "String", `""`)
	declare("defaultMaxSize", "Nat", "0")
	declare("cacheGetExpiry", "Cmp", ".other")
	declare("cacheCleanupExpiry", "Cmp", ".other")
	declare("cacheEvictExpiry", "Cmp", ".other")
	declare("cacheCleanupFactorMilli", "Nat", "0") // the 0.1 of Cleanup's second disjunct, ×1000
	declare("cacheCapacityTestGE", "Bool", "false") // `len(c.items) >= c.maxSize`
	declare("cacheLockedMethods", "List String", "[]")
	declare("cacheUnlockedMethods", "List String", "[]")
	declare("cachePrivateCalledOnlyLocked", "Bool", "false")
	declare("skewFutureSec", "Int", "0")
	declare("skewPastSec", "Int", "0")
	declare("supportedAlgs", "List String", "[]")
	declare("hashAlgs", "List String", "[]")
	declare("rsaAlgPrefixes", "List String", "[]")
	declare("ecAlgPrefixes", "List String", "[]")
	declare("ecdsaSigLenExact", "Bool", "false")
	declare("nbfTypeChecked", "Bool", "false")
	declare("limiterRateIsConfigPerSecond", "Bool", "false")
	declare("limiterBurstIsConfig", "Bool", "false")
	declare("cookieStoreKeyArgs", "Nat", "0")
	declare("cookieStoreAllPairsEncrypted", "Bool", "false") // key pairs (hash, block): an even number of arguments, none nil
	declare("optHttpOnly", "Bool", "false")
	declare("optSameSiteLax", "Bool", "false")
	declare("optPathRoot", "Bool", "false")
	declare("optMaxAgeIsSessionTimeout", "Bool", "false")
	declare("optSecureIncludesForceHTTPS", "Bool", "false")
	declare("saveAssignsOptionsToAll", "Bool", "false")
	declare("securecookieMaxLen", "Nat", "0")
	declare("cookieValueCeiling", "Nat", "0") // the ceiling on an encoded cookie value: the argument of the codecs' MaxLength call in NewSessionManager, else the library default; 0 = none
	declare("securecookieMaxAgeSec", "Int", "0")
	declare("blacklistDurationSec", "Int", "0")
	declare("maxIncomingPathLength", "Nat", "0")
	declare("discoveryMaxRetries", "Nat", "0")
	declare("discoveryBaseDelaySec", "Int", "0")
	declare("discoveryMaxDelaySec", "Int", "0")
	declare("metadataRetryIntervalSec", "Int", "0")
	declare("initializeMetadataLoops", "Bool", "false")
	declare("initWaitSec", "Int", "0")
	declare("metadataRequired", "List String", `["?"]`) // the JSON members a discovery answer must carry non-empty for fetchMetadata to return it (else it returns an error)
	declare("poolPutCount", "Nat", "0")
	declare("poolPutOnlyBeforeNilReturn", "Bool", "false")
	declare("nestedLockCalls", "List String", `["?"]`)   // Type.Method->Callee: a call, made while a lock of the receiver is held, to a method of the same receiver that acquires one
	declare("housekeepingCalls", "List String", "[]") // the caches whose Cleanup the one-minute ticker of startTokenCleanup runs
	for _, fnName := range skeletonFuncs {
		declare("skel_"+fnName, "List String", `["?"]`)
	}
	for _, m := range cacheTextMethods {
		declare("text_Cache_"+m, "List String", `["?"]`)
	}
	for _, m := range sessionTextFuncs {
		declare("text_"+strings.ReplaceAll(m, ".", "_"), "List String", `["?"]`)
	}
	declare("randomFromCryptoRand", "Bool", "false")
	declare("stateSources", "List String", `["?"]`) // the expressions the state (CSRF token) of a login initiation is drawn from
	declare("nonceBytes", "Nat", "0")
	declare("verifierBytes", "Nat", "0")

	files, _ := filepath.Glob(filepath.Join(repo, "*.go"))
	sort.Strings(files)
	dict := map[string]map[string]bool{}
	addDict := func(kind, lit string) {
		if dict[kind] == nil {
			dict[kind] = map[string]bool{}
		}
		dict[kind][lit] = true
	}

	type fn struct {
		decl *ast.FuncDecl
		file string
		af   *ast.File
		path string
	}
	funcs := map[string]fn{}
	var parsed []*ast.File
	importsCryptoRand, importsMathRand := map[string]bool{}, map[string]bool{}
	for _, path := range files {
		if strings.HasSuffix(path, "_test.go") {
			continue
		}
		f := parseFile(path)
		parsed = append(parsed, f)
		for _, im := range f.Imports {
			if im.Path.Value == `"crypto/rand"` {
				importsCryptoRand[filepath.Base(path)] = true
			}
			if im.Path.Value == `"math/rand"` || im.Path.Value == `"math/rand/v2"` {
				importsMathRand[filepath.Base(path)] = true
			}
		}
		for _, d := range f.Decls {
			if fd, ok := d.(*ast.FuncDecl); ok {
				name := fd.Name.Name
				if fd.Recv != nil && len(fd.Recv.List) == 1 {
					name = strings.TrimPrefix(src(fd.Recv.List[0].Type), "*") + "." + name
				}
				funcs[name] = fn{fd, filepath.Base(path), f, path}
			}
		}
	}

	// ---- constants and variables
	durSec := func(name string, e ast.Expr, n ast.Node) {
		if v, ok := evalInt(e); ok && v%1000000000 == 0 {
			set(name, strconv.FormatInt(v/1000000000, 10), n, src(e))
		}
	}
	for _, f := range parsed {
		ast.Inspect(f, func(n ast.Node) bool {
			vs, ok := n.(*ast.ValueSpec)
			if !ok {
				return true
			}
			for i, id := range vs.Names {
				if i >= len(vs.Values) {
					continue
				}
				val := vs.Values[i]
				switch id.Name {
				case "maxCookieSize", "minEncryptionKeyLength", "maxIncomingPathLength":
					if v, ok := evalInt(val); ok && v >= 0 {
						set(id.Name, strconv.FormatInt(v, 10), id, src(val))
						consts[id.Name] = v
					}
				case "maxCookieValueLength":
					if v, ok := evalInt(val); ok && v >= 0 {
						consts[id.Name] = v
					}
				case "DefaultMaxSize":
					if v, ok := evalInt(val); ok && v >= 0 {
						set("defaultMaxSize", strconv.FormatInt(v, 10), id, src(val))
					}
				case "absoluteSessionTimeout":
					durSec("absoluteSessionTimeoutSec", val, id)
					if v, ok := evalInt(val); ok {
						consts[id.Name] = v
					}
				case "ClockSkewToleranceFuture":
					durSec("skewFutureSec", val, id)
				case "ClockSkewTolerancePast":
					durSec("skewPastSec", val, id)
				case "defaultBlacklistDuration":
					durSec("blacklistDurationSec", val, id)
				case "metadataRetryInterval":
					durSec("metadataRetryIntervalSec", val, id)
				case "mainCookieName", "accessTokenCookie", "refreshTokenCookie":
					if bl, ok := val.(*ast.BasicLit); ok && bl.Kind == token.STRING {
						s, _ := strconv.Unquote(bl.Value)
						set(id.Name, leanStr(s), id, bl.Value)
					}
				}
			}
			return true
		})
	}

	// ---- cache.go
	cachePrivate := map[string]bool{}
	var locked, unlocked []string
	for name, f := range funcs {
		if !strings.HasPrefix(name, "Cache.") || f.decl.Body == nil {
			continue
		}
		m := strings.TrimPrefix(name, "Cache.")
		if ast.IsExported(m) {
			body := f.decl.Body.List
			ok := len(body) >= 2 && src(body[0]) == "c.mutex.Lock()" && src(body[1]) == "defer c.mutex.Unlock()"
			if m == "Close" { // Close only closes the stop channel; it touches no shared structure
				continue
			}
			if ok {
				locked = append(locked, m)
			} else {
				unlocked = append(unlocked, m)
			}
		} else {
			cachePrivate[m] = true
		}
	}
	sort.Strings(locked)
	sort.Strings(unlocked)
	if len(locked)+len(unlocked) > 0 {
		set("cacheLockedMethods", leanStrList(locked), nil, "")
		set("cacheUnlockedMethods", leanStrList(unlocked), nil, "")
		facts["cacheLockedMethods"].Pos = "cache.go"
		facts["cacheUnlockedMethods"].Pos = "cache.go"
	}
	// private helpers that touch the structures (removeItem, evictOldest) may be called only from locked
	// exported methods or from each other; exported methods must not call exported methods of the cache
	privOK := true
	touching := map[string]bool{"removeItem": true, "evictOldest": true}
	for name, f := range funcs {
		if f.decl.Body == nil {
			continue
		}
		isCache := strings.HasPrefix(name, "Cache.")
		m := strings.TrimPrefix(name, "Cache.")
		ast.Inspect(f.decl.Body, func(n ast.Node) bool {
			c, ok := n.(*ast.CallExpr)
			if !ok {
				return true
			}
			s, ok := c.Fun.(*ast.SelectorExpr)
			if !ok || src(s.X) != "c" {
				return true
			}
			if touching[s.Sel.Name] {
				callerLocked := false
				for _, l := range locked {
					if l == m {
						callerLocked = true
					}
				}
				if !isCache || !(callerLocked || touching[m]) {
					privOK = false
				}
			}
			// re-entrancy: a locked exported method calling another locked exported method deadlocks
			if isCache && ast.IsExported(m) && m != "Close" {
				for _, l := range locked {
					if s.Sel.Name == l {
						privOK = false
					}
				}
			}
			return true
		})
	}
	if _, ok := funcs["Cache.removeItem"]; ok {
		set("cachePrivateCalledOnlyLocked", strconv.FormatBool(privOK), funcs["Cache.removeItem"].decl, "")
	}
	if f, ok := funcs["Cache.Get"]; ok {
		ast.Inspect(f.decl.Body, func(n ast.Node) bool {
			if is, ok := n.(*ast.IfStmt); ok {
				if sh := expiryShape(is.Cond); sh != "other" {
					set("cacheGetExpiry", shapeLean(sh), is, src(is.Cond))
				}
			}
			return true
		})
	}
	if f, ok := funcs["Cache.evictOldest"]; ok {
		ast.Inspect(f.decl.Body, func(n ast.Node) bool {
			if is, ok := n.(*ast.IfStmt); ok {
				if sh := expiryShape(is.Cond); sh != "other" {
					set("cacheEvictExpiry", shapeLean(sh), is, src(is.Cond))
				}
			}
			return true
		})
	}
	if f, ok := funcs["Cache.Cleanup"]; ok {
		ast.Inspect(f.decl.Body, func(n ast.Node) bool {
			is, ok := n.(*ast.IfStmt)
			if !ok {
				return true
			}
			cond := is.Cond
			if be, ok := cond.(*ast.BinaryExpr); ok && be.Op == token.LOR {
				if sh := expiryShape(be.X); sh != "other" {
					set("cacheCleanupExpiry", shapeLean(sh), is, src(be.X))
				}
				// second disjunct: now.Add(time.Duration(float64(item.ExpiresAt.Sub(now))*F)).After(item.ExpiresAt)
				ast.Inspect(be.Y, func(m ast.Node) bool {
					if bl, ok := m.(*ast.BasicLit); ok && bl.Kind == token.FLOAT {
						if v, err := strconv.ParseFloat(bl.Value, 64); err == nil && v >= 0 {
							set("cacheCleanupFactorMilli", strconv.Itoa(int(v*1000+0.5)), bl, src(be.Y))
						}
					}
					return true
				})
			} else if sh := expiryShape(cond); sh != "other" {
				set("cacheCleanupExpiry", shapeLean(sh), is, src(cond))
				set("cacheCleanupFactorMilli", "0", is, "no second disjunct")
			}
			return true
		})
	}
	if f, ok := funcs["Cache.Set"]; ok {
		ast.Inspect(f.decl.Body, func(n ast.Node) bool {
			if is, ok := n.(*ast.IfStmt); ok {
				c := src(is.Cond)
				if strings.Contains(c, "maxSize") {
					set("cacheCapacityTestGE", strconv.FormatBool(c == "len(c.items) >= c.maxSize"), is, c)
				}
			}
			return true
		})
	}

	// ---- jwt.go
	if f, ok := funcs["JWT.Verify"]; ok {
		ast.Inspect(f.decl.Body, func(n ast.Node) bool {
			switch x := n.(type) {
			case *ast.CompositeLit:
				if src(x.Type) == "map[string]bool" {
					var ks []string
					good := true
					for _, e := range x.Elts {
						kv, ok := e.(*ast.KeyValueExpr)
						if !ok || src(kv.Value) != "true" {
							good = false
							continue
						}
						s, err := strconv.Unquote(src(kv.Key))
						if err != nil {
							good = false
						}
						ks = append(ks, s)
					}
					sort.Strings(ks)
					if good {
						set("supportedAlgs", leanStrList(ks), x, src(x))
					}
				}
			case *ast.IfStmt:
				// nbf: `if nbfClaim, present := claims["nbf"]; present {` with an inner `!ok` rejection
				if x.Init != nil && strings.Contains(src(x.Init), `claims["nbf"]`) {
					typed := strings.Contains(src(x.Init), ".(float64)")
					if typed {
						set("nbfTypeChecked", "false", x, src(x.Init))
					} else {
						rejects := false
						ast.Inspect(x.Body, func(m ast.Node) bool {
							if is, ok := m.(*ast.IfStmt); ok && strings.HasPrefix(src(is.Cond), "!") {
								for _, st := range is.Body.List {
									if r, ok := st.(*ast.ReturnStmt); ok && len(r.Results) == 1 && src(r.Results[0]) != "nil" {
										rejects = true
									}
								}
							}
							return true
						})
						set("nbfTypeChecked", strconv.FormatBool(rejects), x, src(x.Init))
					}
				}
			}
			return true
		})
	}
	if f, ok := funcs["verifySignature"]; ok {
		var hashAlgs []string
		var rsaP, ecP []string
		ast.Inspect(f.decl.Body, func(n ast.Node) bool {
			switch x := n.(type) {
			case *ast.CaseClause:
				isHash := false
				for _, st := range x.Body {
					if strings.HasPrefix(src(st), "hashFunc = crypto.SHA") {
						isHash = true
					}
				}
				if isHash {
					for _, e := range x.List {
						if s, err := strconv.Unquote(src(e)); err == nil {
							// record the pairing alg suffix <-> hash size
							h := ""
							for _, st := range x.Body {
								h = strings.TrimPrefix(src(st), "hashFunc = crypto.SHA")
							}
							if strings.HasSuffix(s, h) {
								hashAlgs = append(hashAlgs, s)
							} else {
								hashAlgs = append(hashAlgs, s+"!mismatch")
							}
						}
					}
				}
				// key family dispatch
				if len(x.List) == 1 {
					t := src(x.List[0])
					ast.Inspect(x, func(m ast.Node) bool {
						if c, ok := m.(*ast.CallExpr); ok && src(c.Fun) == "strings.HasPrefix" && len(c.Args) == 2 && src(c.Args[0]) == "alg" {
							if s, err := strconv.Unquote(src(c.Args[1])); err == nil {
								if t == "*rsa.PublicKey" {
									rsaP = append(rsaP, s)
								} else if t == "*ecdsa.PublicKey" {
									ecP = append(ecP, s)
								}
							}
						}
						return true
					})
				}
			case *ast.IfStmt:
				c := src(x.Cond)
				if strings.HasPrefix(c, "sigLen") {
					exact := c == "sigLen != 2*((pubKey.Curve.Params().BitSize+7)/8)" || c == "sigLen != 2*((pubKey.Curve.Params().BitSize + 7) / 8)" || c == "sigLen != 2 * ((pubKey.Curve.Params().BitSize + 7) / 8)"
					set("ecdsaSigLenExact", strconv.FormatBool(exact), x, c)
				}
			}
			return true
		})
		sort.Strings(hashAlgs)
		sort.Strings(rsaP)
		sort.Strings(ecP)
		set("hashAlgs", leanStrList(hashAlgs), f.decl, "")
		set("rsaAlgPrefixes", leanStrList(rsaP), f.decl, "")
		set("ecAlgPrefixes", leanStrList(ecP), f.decl, "")
	}

	// ---- main.go: limiter, discovery, init wait; session.go: store, options, pool
	putCount, putSafe := 0, true
	for name, f := range funcs {
		if f.decl.Body == nil {
			continue
		}
		body := f.decl.Body
		ast.Inspect(body, func(n ast.Node) bool {
			switch x := n.(type) {
			case *ast.CallExpr:
				fun := src(x.Fun)
				switch {
				case fun == "rate.NewLimiter" && len(x.Args) == 2:
					a0, a1 := src(x.Args[0]), src(x.Args[1])
					set("limiterRateIsConfigPerSecond", strconv.FormatBool(a0 == "rate.Limit(config.RateLimit)"), x, a0)
					set("limiterBurstIsConfig", strconv.FormatBool(a1 == "config.RateLimit"), x, a1)
				case name == "NewSessionManager" && strings.HasSuffix(fun, ".MaxLength") && len(x.Args) == 1:
					if v, ok := evalInt(x.Args[0]); ok && v >= 0 {
						set("cookieValueCeiling", strconv.FormatInt(v, 10), x, src(x))
					}
				case fun == "sessions.NewCookieStore":
					// the second argument (block key) must be a non-nil expression
					nn := 0
					for _, a := range x.Args {
						if src(a) != "nil" {
							nn++
						} else {
							break
						}
					}
					set("cookieStoreKeyArgs", strconv.Itoa(nn), x, src(x))
					// securecookie.CodecsFromPairs: arguments are (hash key, block key) pairs; a pair without block key (odd trailing
					// argument or nil) yields a codec that only signs, and EncodeMulti falls back to it when an earlier codec fails
					allEnc := len(x.Args) >= 2 && len(x.Args)%2 == 0 && nn == len(x.Args)
					set("cookieStoreAllPairsEncrypted", strconv.FormatBool(allEnc), x, src(x))
				case strings.HasSuffix(fun, "Header.Get") || strings.HasSuffix(fun, "Header.Set") || strings.HasSuffix(fun, "Header.Del") || strings.HasSuffix(fun, "Header().Set") || strings.HasSuffix(fun, "Header().Get"):
					if len(x.Args) > 0 {
						if s, err := strconv.Unquote(src(x.Args[0])); err == nil {
							addDict("header", s)
						}
					}
				case strings.HasSuffix(fun, "Query().Get"):
					if s, err := strconv.Unquote(src(x.Args[0])); err == nil {
						addDict("query", s)
					}
				case fun == "strings.Contains" || fun == "strings.HasPrefix" || fun == "strings.HasSuffix" || fun == "strings.EqualFold":
					for _, a := range x.Args {
						if s, err := strconv.Unquote(src(a)); err == nil {
							addDict("compared", s)
						}
					}
				}
			case *ast.BinaryExpr:
				if x.Op == token.EQL || x.Op == token.NEQ {
					for _, a := range []ast.Expr{x.X, x.Y} {
						if bl, ok := a.(*ast.BasicLit); ok && bl.Kind == token.STRING {
							if s, err := strconv.Unquote(bl.Value); err == nil && s != "" {
								addDict("compared", s)
							}
						}
					}
				}
			case *ast.BlockStmt:
				// pool discipline: a Put must be directly followed by `return nil, …`
				for i, st := range x.List {
					if es, ok := st.(*ast.ExprStmt); ok {
						if c, ok := es.X.(*ast.CallExpr); ok && strings.HasSuffix(src(c.Fun), "sessionPool.Put") {
							putCount++
							okHere := false
							if i+1 < len(x.List) {
								if r, ok := x.List[i+1].(*ast.ReturnStmt); ok && len(r.Results) >= 1 && src(r.Results[0]) == "nil" {
									okHere = true
								}
							}
							if !okHere || name != "SessionManager.GetSession" {
								putSafe = false
							}
						}
					}
				}
			case *ast.DeferStmt:
				if strings.HasSuffix(src(x.Call.Fun), "sessionPool.Put") {
					putCount++
					putSafe = false
				}
			}
			return true
		})
	}
	if _, ok := funcs["SessionManager.GetSession"]; ok {
		set("poolPutCount", strconv.Itoa(putCount), funcs["SessionManager.GetSession"].decl, "")
		set("poolPutOnlyBeforeNilReturn", strconv.FormatBool(putSafe), funcs["SessionManager.GetSession"].decl, "")
	}

	// ---- lock discipline of every receiver type (C05: no self-deadlock): sync.RWMutex is not reentrant, so a method that holds a
	// lock of its receiver must not call a method of the same receiver that acquires one
	{
		recvName := func(fd *ast.FuncDecl) string {
			if fd.Recv == nil || len(fd.Recv.List) != 1 || len(fd.Recv.List[0].Names) != 1 {
				return ""
			}
			return fd.Recv.List[0].Names[0].Name
		}
		lockCall := func(call *ast.CallExpr, recv string) (field, op string, ok bool) {
			sel, ok1 := call.Fun.(*ast.SelectorExpr)
			if !ok1 {
				return
			}
			switch sel.Sel.Name {
			case "Lock", "RLock", "Unlock", "RUnlock":
			default:
				return
			}
			inner, ok2 := sel.X.(*ast.SelectorExpr)
			if !ok2 {
				return
			}
			id, ok3 := inner.X.(*ast.Ident)
			if !ok3 || id.Name != recv {
				return
			}
			return inner.Sel.Name, sel.Sel.Name, true
		}
		acquires := map[string]bool{}
		for name, f := range funcs {
			rn := recvName(f.decl)
			if rn == "" || f.decl.Body == nil {
				continue
			}
			ast.Inspect(f.decl.Body, func(n ast.Node) bool {
				if _, isLit := n.(*ast.FuncLit); isLit {
					return false
				}
				if c, ok := n.(*ast.CallExpr); ok {
					if _, op, ok := lockCall(c, rn); ok && (op == "Lock" || op == "RLock") {
						acquires[name] = true
					}
				}
				return true
			})
		}
		var nested []string
		nMethods := 0
		for name, f := range funcs {
			rn := recvName(f.decl)
			if rn == "" || f.decl.Body == nil || !acquires[name] {
				continue
			}
			nMethods++
			typ := name[:strings.IndexByte(name, '.')]
			terminates := func(b *ast.BlockStmt) bool {
				if b == nil || len(b.List) == 0 {
					return false
				}
				switch b.List[len(b.List)-1].(type) {
				case *ast.ReturnStmt:
					return true
				}
				return false
			}
			copyH := func(h map[string]int) map[string]int {
				c := map[string]int{}
				for k, v := range h {
					c[k] = v
				}
				return c
			}
			merge := func(into, from map[string]int) {
				for k, v := range from {
					if v > into[k] {
						into[k] = v
					}
				}
			}
			// calls inside an expression or simple statement, in source order
			scanCalls := func(n ast.Node, held map[string]int) {
				if n == nil {
					return
				}
				ast.Inspect(n, func(x ast.Node) bool {
					if _, isLit := x.(*ast.FuncLit); isLit {
						return false
					}
					c, ok := x.(*ast.CallExpr)
					if !ok {
						return true
					}
					if field, op, ok := lockCall(c, rn); ok {
						switch op {
						case "Lock", "RLock":
							held[field]++
						default:
							if held[field] > 0 {
								held[field]--
							}
						}
						return true
					}
					if sel, ok := c.Fun.(*ast.SelectorExpr); ok {
						if id, ok := sel.X.(*ast.Ident); ok && id.Name == rn && acquires[typ+"."+sel.Sel.Name] {
							for _, v := range held {
								if v > 0 {
									nested = append(nested, name+"->"+sel.Sel.Name)
									break
								}
							}
						}
					}
					return true
				})
			}
			var walk func(stmts []ast.Stmt, held map[string]int)
			block := func(b *ast.BlockStmt, held map[string]int) {
				if b == nil {
					return
				}
				h2 := copyH(held)
				walk(b.List, h2)
				if !terminates(b) {
					merge(held, h2)
				}
			}
			walk = func(stmts []ast.Stmt, held map[string]int) {
				for _, st := range stmts {
					switch x := st.(type) {
					case *ast.DeferStmt, *ast.GoStmt:
					case *ast.BlockStmt:
						walk(x.List, held)
					case *ast.IfStmt:
						if x.Init != nil {
							walk([]ast.Stmt{x.Init}, held)
						}
						scanCalls(x.Cond, held)
						block(x.Body, held)
						switch e := x.Else.(type) {
						case *ast.BlockStmt:
							block(e, held)
						case *ast.IfStmt:
							walk([]ast.Stmt{e}, held)
						}
					case *ast.ForStmt:
						if x.Init != nil {
							walk([]ast.Stmt{x.Init}, held)
						}
						scanCalls(x.Cond, held)
						block(x.Body, held)
					case *ast.RangeStmt:
						scanCalls(x.X, held)
						block(x.Body, held)
					case *ast.SwitchStmt:
						if x.Init != nil {
							walk([]ast.Stmt{x.Init}, held)
						}
						scanCalls(x.Tag, held)
						for _, cc := range x.Body.List {
							if c, ok := cc.(*ast.CaseClause); ok {
								h2 := copyH(held)
								walk(c.Body, h2)
								merge(held, h2)
							}
						}
					case *ast.TypeSwitchStmt:
						for _, cc := range x.Body.List {
							if c, ok := cc.(*ast.CaseClause); ok {
								h2 := copyH(held)
								walk(c.Body, h2)
								merge(held, h2)
							}
						}
					case *ast.SelectStmt:
						for _, cc := range x.Body.List {
							if c, ok := cc.(*ast.CommClause); ok {
								h2 := copyH(held)
								walk(c.Body, h2)
								merge(held, h2)
							}
						}
					default:
						scanCalls(st, held)
					}
				}
			}
			walk(f.decl.Body.List, map[string]int{})
		}
		sort.Strings(nested)
		if nMethods > 0 {
			set("nestedLockCalls", leanStrList(nested), nil, fmt.Sprintf("%d methods acquire a lock of their receiver", nMethods))
			facts["nestedLockCalls"].Pos = "*.go"
		}
	}
	// ---- the decision functions of the handler: their steps in order — guards (normalised text), the calls on the instance, the
	// session and net/http behind them (with literal arguments and status codes), and where they return.  The Lean model follows
	// these shapes statement by statement; a reordered, added or dropped step or a changed guard is a different program shape.
	{
		norm := func(n ast.Node) string { return strings.Join(strings.Fields(src(n)), " ") }
		root := func(e ast.Expr) string {
			for {
				switch x := e.(type) {
				case *ast.SelectorExpr:
					e = x.X
				case *ast.CallExpr:
					e = x.Fun
				case *ast.Ident:
					return x.Name
				default:
					return ""
				}
			}
		}
		callText := func(c *ast.CallExpr) (string, bool) {
			sel, ok := c.Fun.(*ast.SelectorExpr)
			if !ok {
				if id, ok := c.Fun.(*ast.Ident); ok && (id.Name == "isLocalRedirectTarget" || id.Name == "buildFullURL") {
					return id.Name, true
				}
				return "", false
			}
			r := root(sel.X)
			if r != "t" && r != "session" && r != "http" && r != "rw" && r != "html" && r != "json" && r != "fmt" && !(r == "req" && strings.Contains(src(sel.X), "Header")) {
				return "", false
			}
			if strings.Contains(src(sel.X), "logger") {
				return "", false
			}
			var args []string
			for _, a := range c.Args {
				switch x := a.(type) {
				case *ast.BasicLit:
					v := x.Value
					if len(v) > 60 { // long literals (page templates): a prefix and a checksum of the whole text
						h := fnv.New32a()
						h.Write([]byte(v))
						v = fmt.Sprintf("%s…#%08x", v[:40], h.Sum32())
					}
					args = append(args, v)
				case *ast.SelectorExpr:
					if root(x) == "http" {
						args = append(args, x.Sel.Name)
					} else {
						args = append(args, "_")
					}
				case *ast.Ident:
					if x.Name == "true" || x.Name == "false" || x.Name == "nil" {
						args = append(args, x.Name)
					} else {
						args = append(args, "_")
					}
				default:
					args = append(args, "_")
				}
			}
			return sel.Sel.Name + "(" + strings.Join(args, ",") + ")", true
		}
		callsIn := func(n ast.Node) []string {
			var out []string
			if n == nil {
				return out
			}
			ast.Inspect(n, func(x ast.Node) bool {
				switch y := x.(type) {
				case *ast.FuncLit, *ast.BlockStmt:
					return false
				case *ast.CallExpr:
					if t, ok := callText(y); ok {
						out = append(out, t)
					}
				}
				return true
			})
			return out
		}
		var skel func(stmts []ast.Stmt) []string
		returns := func(l []ast.Stmt) string { return "" }
		skel = func(stmts []ast.Stmt) []string {
			var out []string
			for _, st := range stmts {
				switch x := st.(type) {
				case *ast.SelectStmt:
					var arms []string
					for _, cc := range x.Body.List {
						if c, ok := cc.(*ast.CommClause); ok {
							arm := "default"
							if c.Comm != nil {
								arm = norm(c.Comm)
							}
							arms = append(arms, arm+"{"+strings.Join(skel(c.Body), ";")+returns(c.Body)+"}")
						}
					}
					out = append(out, "select["+strings.Join(arms, " | ")+"]")
				case *ast.IfStmt:
					var pre []string
					if x.Init != nil {
						pre = callsIn(x.Init)
					}
					body := skel(x.Body.List)
					rets := returns(x.Body.List)
					els := ""
					switch e := x.Else.(type) {
					case *ast.BlockStmt:
						if in, r := skel(e.List), returns(e.List); len(in) > 0 || r != "" {
							els = " else{" + strings.Join(in, ";") + r + "}"
						}
					case *ast.IfStmt:
						if in := skel([]ast.Stmt{e}); len(in) > 0 {
							els = " else " + strings.Join(in, ";")
						}
					}
					if len(body) == 0 && rets == "" && els == "" && len(pre) == 0 && len(callsIn(x.Cond)) == 0 {
						continue // neither a call nor an exit behind this guard (logging, local bookkeeping)
					}
					out = append(out, strings.Join(append(pre, "if "+norm(x.Cond)+"{"+strings.Join(body, ";")+rets+"}"+els), ";"))
				case *ast.ForStmt:
					out = append(out, "for{"+strings.Join(skel(x.Body.List), ";")+returns(x.Body.List)+"}")
				case *ast.RangeStmt:
					out = append(out, "range "+norm(x.X)+"{"+strings.Join(skel(x.Body.List), ";")+returns(x.Body.List)+"}")
				case *ast.ReturnStmt:
					out = append(out, norm(x))
				case *ast.DeferStmt:
				default:
					out = append(out, callsIn(st)...)
				}
			}
			return out
		}
		for _, fnName := range skeletonFuncs {
			if f, ok := funcs["TraefikOidc."+fnName]; ok && f.decl.Body != nil {
				set("skel_"+fnName, leanStrList(skel(f.decl.Body.List)), f.decl, "")
			}
		}
		// cache.go: the whole text of the six methods the three-structure model `Oidc.CacheImpl` follows statement by statement
		// (one string per top-level statement, whitespace-normalised, comments dropped by the printer)
		// the text of one top-level statement as it stands in the file, without comments and without statements that only log
		fileBytes := map[string][]byte{}
		stmtText := func(f fn, st ast.Stmt) string {
			b, ok := fileBytes[f.path]
			if !ok {
				b, _ = os.ReadFile(f.path)
				fileBytes[f.path] = b
			}
			lo, hi := fset.Position(st.Pos()).Offset, fset.Position(st.End()).Offset
			type rng struct{ a, b int }
			var cut []rng
			for _, cg := range f.af.Comments {
				for _, c := range cg.List {
					a, e := fset.Position(c.Pos()).Offset, fset.Position(c.End()).Offset
					if a >= lo && e <= hi {
						cut = append(cut, rng{a, e})
					}
				}
			}
			ast.Inspect(st, func(x ast.Node) bool {
				if es, ok := x.(*ast.ExprStmt); ok {
					if c, ok := es.X.(*ast.CallExpr); ok && strings.Contains(src(c.Fun), "logger.") {
						cut = append(cut, rng{fset.Position(es.Pos()).Offset, fset.Position(es.End()).Offset})
						return false
					}
				}
				return true
			})
			sort.Slice(cut, func(i, j int) bool { return cut[i].a < cut[j].a })
			var out []byte
			p := lo
			for _, c := range cut {
				if c.a >= p {
					out = append(out, b[p:c.a]...)
					out = append(out, ' ')
					p = c.b
				}
			}
			out = append(out, b[p:hi]...)
			return strings.Join(strings.Fields(string(out)), " ")
		}
		bodyText := func(f fn) []string {
			var lines []string
			for _, st := range f.decl.Body.List {
				if t := stmtText(f, st); t != "" {
					lines = append(lines, t)
				}
			}
			return lines
		}
		for _, m := range cacheTextMethods {
			if f, ok := funcs["Cache."+m]; ok && f.decl.Body != nil {
				set("text_Cache_"+m, leanStrList(bodyText(f)), f.decl, "")
			}
		}
		// session.go: likewise for the functions the session model (`Oidc.Session`, `Oidc.Codec`) follows
		for _, m := range sessionTextFuncs {
			if f, ok := funcs[m]; ok && f.decl.Body != nil {
				set("text_"+strings.ReplaceAll(m, ".", "_"), leanStrList(bodyText(f)), f.decl, "")
			}
		}
	}
	// ---- the one-minute housekeeping ticker (the harness hook runs the same calls next to live traffic)
	if f, ok := funcs["TraefikOidc.startTokenCleanup"]; ok {
		var hk []string
		ast.Inspect(f.decl.Body, func(n ast.Node) bool {
			if c, ok := n.(*ast.CallExpr); ok {
				if sel, ok := c.Fun.(*ast.SelectorExpr); ok && sel.Sel.Name == "Cleanup" {
					if in, ok := sel.X.(*ast.SelectorExpr); ok {
						hk = append(hk, in.Sel.Name)
					}
				}
			}
			return true
		})
		set("housekeepingCalls", leanStrList(hk), f.decl, "")
	}

	if f, ok := funcs["SessionManager.getSessionOptions"]; ok {
		ast.Inspect(f.decl.Body, func(n ast.Node) bool {
			cl, ok := n.(*ast.CompositeLit)
			if !ok || src(cl.Type) != "sessions.Options" {
				return true
			}
			seen := map[string]string{}
			for _, e := range cl.Elts {
				if kv, ok := e.(*ast.KeyValueExpr); ok {
					seen[src(kv.Key)] = src(kv.Value)
				}
			}
			set("optHttpOnly", strconv.FormatBool(seen["HttpOnly"] == "true"), cl, seen["HttpOnly"])
			set("optSameSiteLax", strconv.FormatBool(seen["SameSite"] == "http.SameSiteLaxMode"), cl, seen["SameSite"])
			set("optPathRoot", strconv.FormatBool(seen["Path"] == `"/"`), cl, seen["Path"])
			set("optMaxAgeIsSessionTimeout", strconv.FormatBool(seen["MaxAge"] == "int(absoluteSessionTimeout.Seconds())"), cl, seen["MaxAge"])
			sec := seen["Secure"]
			set("optSecureIncludesForceHTTPS", strconv.FormatBool(sec == "isSecure || sm.forceHTTPS" || sec == "sm.forceHTTPS || isSecure" || sec == "true"), cl, sec)
			_, hasDomain := seen["Domain"]
			if hasDomain {
				set("optPathRoot", "false", cl, "Domain attribute present")
			}
			return false
		})
	}
	if f, ok := funcs["SessionData.Save"]; ok {
		// every session written gets `options` from getSessionOptions
		b := src(f.decl.Body)
		all := strings.Contains(b, "options := sd.manager.getSessionOptions(isSecure)") &&
			strings.Contains(b, "sd.mainSession.Options = options") &&
			strings.Contains(b, "sd.accessSession.Options = options") &&
			strings.Contains(b, "sd.refreshSession.Options = options") &&
			strings.Count(b, "session.Options = options") >= 2
		set("saveAssignsOptionsToAll", strconv.FormatBool(all), f.decl, "")
	}

	if f, ok := funcs["discoverProviderMetadata"]; ok {
		ast.Inspect(f.decl.Body, func(n ast.Node) bool {
			as, ok := n.(*ast.AssignStmt)
			if !ok || len(as.Lhs) != 1 || len(as.Rhs) != 1 || as.Tok != token.DEFINE {
				return true
			}
			switch src(as.Lhs[0]) {
			case "maxRetries":
				if v, ok := evalInt(as.Rhs[0]); ok && v >= 0 {
					set("discoveryMaxRetries", strconv.FormatInt(v, 10), as, src(as.Rhs[0]))
				}
			case "baseDelay":
				durSec("discoveryBaseDelaySec", as.Rhs[0], as)
			case "maxDelay":
				durSec("discoveryMaxDelaySec", as.Rhs[0], as)
			}
			return true
		})
	}
	if f, ok := funcs["TraefikOidc.initializeMetadata"]; ok {
		loops := false
		ast.Inspect(f.decl.Body, func(n ast.Node) bool {
			if fs, ok := n.(*ast.ForStmt); ok {
				b := src(fs.Body)
				if strings.Contains(b, "GetMetadata(") && strings.Contains(b, "time.Sleep(metadataRetryInterval)") && fs.Cond != nil && strings.Contains(src(fs.Cond), "err != nil") {
					hasEscape := false
					ast.Inspect(fs.Body, func(m ast.Node) bool {
						switch m.(type) {
						case *ast.ReturnStmt, *ast.BranchStmt:
							hasEscape = true
						}
						return true
					})
					loops = !hasEscape
				}
			}
			return true
		})
		set("initializeMetadataLoops", strconv.FormatBool(loops), f.decl, "")
	}
	if f, ok := funcs["TraefikOidc.ServeHTTP"]; ok {
		ast.Inspect(f.decl.Body, func(n ast.Node) bool {
			if c, ok := n.(*ast.CallExpr); ok && src(c.Fun) == "time.After" && len(c.Args) == 1 {
				durSec("initWaitSec", c.Args[0], c)
			}
			return true
		})
	}
	// randomness: generateNonce / generateCodeVerifier read crypto/rand; state is uuid.NewRandom/uuid.New
	{
		okRand := true
		found := 0
		for _, name := range []string{"generateNonce", "generateCodeVerifier"} {
			f, ok := funcs[name]
			if !ok {
				okRand = false
				continue
			}
			found++
			b := src(f.decl.Body)
			if !strings.Contains(b, "rand.Read(") || !importsCryptoRand[f.file] || importsMathRand[f.file] {
				okRand = false
			}
			ast.Inspect(f.decl.Body, func(n ast.Node) bool {
				if c, ok := n.(*ast.CallExpr); ok && src(c.Fun) == "make" && len(c.Args) == 2 && src(c.Args[0]) == "[]byte" {
					if v, ok := evalInt(c.Args[1]); ok {
						if name == "generateNonce" {
							set("nonceBytes", strconv.FormatInt(v, 10), c, src(c))
						} else {
							set("verifierBytes", strconv.FormatInt(v, 10), c, src(c))
						}
					}
				}
				return true
			})
		}
		if found > 0 {
			set("randomFromCryptoRand", strconv.FormatBool(okRand), funcs["generateNonce"].decl, "")
		}
		// the state: every call into package uuid in defaultInitiateAuthentication (uuid.NewString = version 4, from crypto/rand)
		if f, ok := funcs["TraefikOidc.defaultInitiateAuthentication"]; ok && f.decl.Body != nil {
			var srcs []string
			ast.Inspect(f.decl.Body, func(n ast.Node) bool {
				if c, ok := n.(*ast.CallExpr); ok {
					if sel, ok := c.Fun.(*ast.SelectorExpr); ok {
						if id, ok := sel.X.(*ast.Ident); ok && id.Name == "uuid" {
							srcs = append(srcs, src(c))
						}
					}
				}
				return true
			})
			set("stateSources", leanStrList(srcs), f.decl, "")
		}
	}

	// ---- vendored securecookie
	sc := filepath.Join(repo, "vendor/github.com/gorilla/securecookie/securecookie.go")
	if _, err := os.Stat(sc); err == nil {
		f := parseFile(sc)
		ast.Inspect(f, func(n ast.Node) bool {
			fd, ok := n.(*ast.FuncDecl)
			if !ok || fd.Name.Name != "New" {
				return true
			}
			ast.Inspect(fd.Body, func(m ast.Node) bool {
				if kv, ok := m.(*ast.KeyValueExpr); ok {
					switch src(kv.Key) {
					case "maxLength":
						if v, ok := evalInt(kv.Value); ok {
							set("securecookieMaxLen", strconv.FormatInt(v, 10), kv, src(kv.Value))
						}
					case "maxAge":
						if v, ok := evalInt(kv.Value); ok {
							set("securecookieMaxAgeSec", strconv.FormatInt(v, 10), kv, src(kv.Value))
						}
					}
				}
				return true
			})
			return false
		})
	}

	// ---- fetchMetadata: which members of the decoded document are required.  A top-level `if <c1> || <c2> ... { ...; return nil, err }`
	// placed before the final return; only disjuncts of the form `<v>.<Field> == ""` (or len(<v>.<Field>) == 0) count, where <v> is the
	// variable whose address the function returns; the field's json tag is what is recorded.
	if f, ok := funcs["fetchMetadata"]; ok && f.decl.Body != nil {
		tags := map[string]string{}
		for _, pf := range parsed {
			ast.Inspect(pf, func(n ast.Node) bool {
				ts, ok := n.(*ast.TypeSpec)
				if !ok || ts.Name.Name != "ProviderMetadata" {
					return true
				}
				if st, ok := ts.Type.(*ast.StructType); ok {
					for _, fl := range st.Fields.List {
						if fl.Tag == nil {
							continue
						}
						tag, _ := strconv.Unquote(fl.Tag.Value)
						j := reflect.StructTag(tag).Get("json")
						if i := strings.Index(j, ","); i >= 0 {
							j = j[:i]
						}
						for _, nm := range fl.Names {
							tags[nm.Name] = j
						}
					}
				}
				return false
			})
		}
		stmts := f.decl.Body.List
		retVar := ""
		if len(stmts) > 0 {
			if rs, ok := stmts[len(stmts)-1].(*ast.ReturnStmt); ok && len(rs.Results) == 2 && src(rs.Results[1]) == "nil" {
				retVar = strings.TrimPrefix(src(rs.Results[0]), "&")
			}
		}
		var req []string
		var leaves func(e ast.Expr)
		leaves = func(e ast.Expr) {
			switch x := e.(type) {
			case *ast.ParenExpr:
				leaves(x.X)
			case *ast.BinaryExpr:
				if x.Op == token.LOR {
					leaves(x.X)
					leaves(x.Y)
					return
				}
				if x.Op == token.EQL {
					l, r := src(x.X), src(x.Y)
					if l == `""` {
						l, r = r, l
					}
					fld := ""
					if r == `""` && strings.HasPrefix(l, retVar+".") {
						fld = strings.TrimPrefix(l, retVar+".")
					} else if r == "0" && strings.HasPrefix(l, "len("+retVar+".") && strings.HasSuffix(l, ")") {
						fld = strings.TrimSuffix(strings.TrimPrefix(l, "len("+retVar+"."), ")")
					}
					if j, ok := tags[fld]; ok && j != "" {
						req = append(req, j)
					}
				}
			}
		}
		if retVar != "" {
			for _, st := range stmts[:len(stmts)-1] {
				is, ok := st.(*ast.IfStmt)
				if !ok || is.Init != nil || is.Else != nil || len(is.Body.List) == 0 {
					continue
				}
				rs, ok := is.Body.List[len(is.Body.List)-1].(*ast.ReturnStmt)
				if !ok || len(rs.Results) != 2 || src(rs.Results[0]) != "nil" || src(rs.Results[1]) == "nil" {
					continue
				}
				leaves(is.Cond)
			}
		}
		sort.Strings(req)
		set("metadataRequired", leanStrList(req), f.decl, "required members: "+strings.Join(req, ", "))
	}

	// no MaxLength call in NewSessionManager: the library's default ceiling applies
	if !facts["cookieValueCeiling"].Found && facts["securecookieMaxLen"].Found {
		d := facts["securecookieMaxLen"]
		c := facts["cookieValueCeiling"]
		c.Lean, c.Pos, c.Raw, c.Found = d.Lean, d.Pos, "library default: "+d.Raw, true
	}

	// ---- output
	var missing []string
	for _, n := range order {
		if !facts[n].Found {
			missing = append(missing, n)
		}
	}
	var lean bytes.Buffer
	lean.WriteString("/-! GENERATED by /verif/tools/facts from /repo — do not edit. -/\n")
	lean.WriteString("namespace Oidc.Generated\n\n")
	lean.WriteString("inductive Cmp | strict | nonstrict | other\n  deriving DecidableEq, Repr\n\n")
	for _, n := range order {
		f := facts[n]
		fmt.Fprintf(&lean, "/-- %s %s -/\ndef %s : %s := %s\n", f.Pos, strings.ReplaceAll(f.Raw, "-/", "- /"), n, f.Type, f.Lean)
	}
	fmt.Fprintf(&lean, "\ndef missing : List String := %s\n", leanStrList(missing))
	fmt.Fprintf(&lean, "def factsComplete : Bool := %v\n", len(missing) == 0)
	lean.WriteString("\nend Oidc.Generated\n")
	writeIfChanged(os.Args[2], lean.Bytes())

	out := struct {
		Facts   []*fact  `json:"facts"`
		Missing []string `json:"missing"`
	}{Missing: missing}
	for _, n := range order {
		out.Facts = append(out.Facts, facts[n])
	}
	jb, _ := json.MarshalIndent(out, "", " ")
	os.WriteFile(os.Args[3], jb, 0o644)

	d := map[string][]string{}
	for k, m := range dict {
		for s := range m {
			d[k] = append(d[k], s)
		}
		sort.Strings(d[k])
	}
	db, _ := json.MarshalIndent(d, "", " ")
	os.WriteFile(os.Args[4], db, 0o644)
	if len(missing) > 0 {
		fmt.Println("facts: not extractable:", strings.Join(missing, ", "))
	}
}

func writeIfChanged(path string, b []byte) {
	old, err := os.ReadFile(path)
	if err == nil && bytes.Equal(old, b) {
		return
	}
	os.MkdirAll(filepath.Dir(path), 0o755)
	os.Remove(path)
	if err := os.WriteFile(path, b, 0o644); err != nil {
		fmt.Fprintln(os.Stderr, "facts:", err)
		os.Exit(2)
	}
}
