// go2lean translates a fixed list of /repo's functions, statement by statement, into Lean 4 definitions over Oidc.GoLib.
//
// usage: go2lean <repo> <out.lean>
//
// The translation is syntax-directed and total on the fragment it knows; anything else makes the function "untranslatable"
// (a marker definition is emitted, so every theorem about it stops type-checking and the check reports the obligation broken).
//
//   - a statement list becomes an expression in continuation-passing form: `x := e; rest` is `let x := e; rest`,
//     `if c { A }; rest` is `if c then A;rest else rest`, `return e` drops the continuation;
//   - `for … range xs { body }` becomes `Go.forRange xs state (fun x state => body)`, the state being the outer variables the
//     body assigns, `break` and `return` being the constructors `.brk` and `.ret`;
//   - a variable declared in an inner scope under a name visible outside gets a fresh Lean name, so that the code that follows
//     the scope (which the continuation form places inside it) still refers to the outer variable;
//   - `time.Now()` becomes the parameter `now` of the function and of everything that calls it;
//   - logging statements are dropped; the arguments of `fmt.Errorf` are dropped (an error is its format string).
package main

import (
	"encoding/json"
	"fmt"
	"go/ast"
	"go/parser"
	"go/token"
	"os"
	"path/filepath"
	"sort"
	"strconv"
	"strings"
)

// the functions translated, by file; "Recv.name" for methods
var targets = []string{
	"verifyIssuer", "numericDateSeconds", "verifyTimeConstraint", "verifyExpiration", "verifyIssuedAt", "verifyNotBefore", "verifyAudience", "JWT.Verify",
	"TraefikOidc.determineScheme", "TraefikOidc.determineHost", "TraefikOidc.determineExcludedURL", "TraefikOidc.isAllowedDomain",
	"isLocalRedirectTarget", "buildFullURL", "TraefikOidc.extractGroupsAndRoles", "splitIntoChunks",
	"TraefikOidc.VerifyJWTSignatureAndClaims", "TraefikOidc.isUserAuthenticated",
	"TraefikOidc.performPreVerificationChecks", "TraefikOidc.cacheVerifiedToken", "TraefikOidc.VerifyToken", "TraefikOidc.RevokeToken",
	"Cache.removeItem", "Cache.evictOldest", "Cache.Set", "Cache.Get", "Cache.Delete", "Cache.Cleanup",
	"TokenCache.Set", "TokenCache.Get", "TokenCache.Delete", "TokenCache.Cleanup",
	"discoverProviderMetadata",
	"MetadataCache.isCacheValid", "MetadataCache.Cleanup", "MetadataCache.GetMetadata",
	"JWKCache.Cleanup", "JWKCache.GetJWKS",
	"isValidLogLevel", "Config.Validate",
	"SessionManager.getSessionOptions",
	"SessionData.expireAccessTokenChunks", "SessionData.expireRefreshTokenChunks",
	"SessionData.SetAccessToken", "SessionData.GetAccessToken", "SessionData.SetRefreshToken", "SessionData.GetRefreshToken",
	"SessionData.GetCSRF", "SessionData.SetCSRF", "SessionData.GetNonce", "SessionData.SetNonce", "SessionData.GetCodeVerifier", "SessionData.SetCodeVerifier",
	"SessionData.GetEmail", "SessionData.SetEmail", "SessionData.GetIncomingPath", "SessionData.SetIncomingPath",
	"SessionData.GetAuthenticated", "SessionData.SetAuthenticated",
}

// functions whose effects are on the outside world and the clock (discovery): `time.Now()`, `time.Sleep` and the HTTP fetch are
// operations of `Go.DOps` on a state `w` (the virtual clock and the provider's scripted answers live there)
var clocked = map[string]bool{"discoverProviderMetadata": true, "MetadataCache.GetMetadata": true, "JWKCache.GetJWKS": true}

// methods of *MetadataCache that assign its fields: they take the struct and return the new one next to their result
var recvMutMethods = map[string]bool{"MetadataCache.GetMetadata": true, "MetadataCache.Cleanup": true, "JWKCache.GetJWKS": true, "JWKCache.Cleanup": true,
	"SessionData.expireAccessTokenChunks": true, "SessionData.expireRefreshTokenChunks": true, "SessionData.SetAccessToken": true, "SessionData.SetRefreshToken": true,
	"SessionData.SetCSRF": true, "SessionData.SetNonce": true, "SessionData.SetCodeVerifier": true, "SessionData.SetEmail": true, "SessionData.SetIncomingPath": true, "SessionData.SetAuthenticated": true}

// calls that read or change the state shared between requests (token cache, revocation list, limiter): the translated function
// takes that state as its last argument `w` and returns it next to its result; the operations are the fields of `Go.VOps`
type statefulExt struct {
	field string
	now   bool     // the operation reads the clock
	res   []string // result types
	anyAt int      // index of an argument passed as interface{} (-1: none)
}

var statefulExternals = map[string]statefulExt{
	"t.tokenCache.Get":     {"tokenCacheGet", true, []string{"obj", "bool"}, -1},
	"t.tokenCache.Set":     {"tokenCacheSet", true, nil, -1},
	"t.tokenCache.Delete":  {"tokenCacheDelete", false, nil, -1},
	"t.tokenBlacklist.Get": {"blacklistGet", true, []string{"any", "bool"}, -1},
	"t.tokenBlacklist.Set": {"blacklistSet", true, nil, 1},
	"t.limiter.Allow":      {"limiterAllow", true, []string{"bool"}, -1},
}

// the same for the clocked functions (no `now` argument: the clock is part of the state); argument positions passed on
var clockedExternals = map[string]struct {
	field string
	res   []string
	args  []int
}{
	"fetchMetadata": {"fetchMetadata", []string{"metap", "error"}, []int{0}},
	"fetchJWKS":     {"fetchJWKS", []string{"jwksp", "error"}, []int{1}}, // (the context and the client are passed along, never inspected)
	"time.Sleep":    {"sleep", nil, []int{0}},
}

// functions of /repo that are not translated but called by translated ones: they become fields of the instance record
// (`Go.Inst`), i.e. parameters the theorems quantify over.  name as written at the call site -> result types
var externals = map[string][]string{
	"parseJWT":            {"jwt", "error"},
	"t.extractClaimsFunc": {"obj", "error"},
	"t.jwkCache.GetJWKS":  {"jwks", "error"}, // (its arguments are fields of the instance: the field of `Go.Inst` takes none)
	"jwkToPEM":            {"pem", "error"},
	"extractClaims":       {"obj", "error"},
	"verifySignature":     {"error"},
	"generateSecureRandomString": {"str", "error"}, // (crypto/rand: a field of the session data, i.e. a parameter)
	"isValidSecureURL":           {"bool"},         // (net/url parsing: a field of `Go.Config`, i.e. a parameter)
}

// externals whose arguments are not passed on (constant per instance)
var externalNoArgs = map[string]string{"t.jwkCache.GetJWKS": "getJWKS"}

// getters of *SessionData read by translated functions (fields of `Go.Sess`)
var sessGetters = map[string]string{"GetAuthenticated": "bool", "GetAccessToken": "str", "GetRefreshToken": "str", "GetEmail": "str"}

// package-level variables / constants translated (name -> Lean type)
var globals = map[string]string{"ClockSkewToleranceFuture": "dur", "ClockSkewTolerancePast": "dur", "ClockSkewTolerance": "dur", "defaultBlacklistDuration": "dur",
	"maxCookieSize": "int", "accessTokenCookie": "str", "refreshTokenCookie": "str", "absoluteSessionTimeout": "dur", "maxNumericDate": "int",
	"MinRateLimit": "int", "MinSessionEncryptionKeyLength": "int"}

type fn struct {
	key        string
	decl       *ast.FuncDecl
	needsNow   bool
	recvMut    bool // method of a struct it changes in place (cache.go): takes the struct and returns the new one next to its result
	recvType   string
	stateful   bool // reads or changes the shared state: takes `ops` and `w`, returns the new state next to its result
	fuel       bool // contains a general `for` loop: takes a fuel argument, result wrapped in Option (none = fuel exhausted)
	calls      []string
	retTypes   []string
	paramTypes []string
}

var (
	fset   = token.NewFileSet()
	funcs  = map[string]*fn{}
	byName = map[string]*fn{} // bare function / method name -> fn (translated ones only)
	gdecl  = map[string]ast.Expr{}
)

var want = map[string]bool{}

var leanKeywords = map[string]bool{"exists": true, "from": true, "at": true, "end": true, "then": true, "do": true, "let": true, "have": true,
	"fun": true, "match": true, "with": true, "in": true, "instance": true, "structure": true, "class": true, "theorem": true, "def": true,
	"open": true, "namespace": true, "section": true, "variable": true, "universe": true, "by": true, "show": true, "mut": true, "where": true,
	"deriving": true, "import": true, "export": true, "local": true, "private": true, "protected": true, "partial": true, "unsafe": true,
	"macro": true, "syntax": true, "notation": true, "calc": true, "nomatch": true, "nofun": true, "this": true, "Type": true, "Sort": true,
	"Prop": true, "forall": true, "axiom": true, "example": true, "abbrev": true, "inductive": true, "mutual": true, "set_option": true,
	"suffices": true, "obtain": true, "using": true, "extends": true, "attribute": true, "noncomputable": true, "opaque": true}

type unsupported struct{ msg string }

func fail(n ast.Node, format string, a ...interface{}) {
	pos := ""
	if n != nil {
		p := fset.Position(n.Pos())
		pos = fmt.Sprintf("%s:%d: ", filepath.Base(p.Filename), p.Line)
	}
	panic(unsupported{pos + fmt.Sprintf(format, a...)})
}

func leanType(t string) string {
	switch t {
	case "str":
		return "Go.Str"
	case "bool":
		return "Bool"
	case "int":
		return "Int"
	case "f64":
		return "Go.F64"
	case "error":
		return "Go.Err"
	case "time":
		return "Go.Time"
	case "dur":
		return "Go.Duration"
	case "any":
		return "Go.Any"
	case "anys":
		return "(List Go.Any)"
	case "obj":
		return "Go.Obj"
	case "strs":
		return "(List Go.Str)"
	case "set":
		return "Go.Set"
	case "req":
		return "Go.Request"
	case "inst":
		return "Go.Inst"
	case "jwt":
		return "Go.JWT"
	case "boolmap":
		return "(List (Go.Str × Bool))"
	case "sess":
		return "Go.Sess"
	case "jwks":
		return "Go.JWKSet"
	case "jwk":
		return "Go.JWK"
	case "jwkp":
		return "(Option Go.JWK)"
	case "jwklist":
		return "(List Go.JWK)"
	case "pem":
		return "Go.Pem"
	case "metap":
		return "(Option Go.Meta)"
	case "mcache":
		return "Go.MetaCache"
	case "jcache":
		return "Go.JwkCache"
	case "cfg":
		return "Go.Config"
	case "sopt":
		return "Go.SessOptions"
	case "smgr":
		return "Go.SessMgr"
	case "hdrs":
		return "(List Go.TemplatedHeader)"
	case "hdr":
		return "Go.TemplatedHeader"
	case "jwksp":
		return "(Option Go.JWKSet)"
	case "ctx":
		return "Go.Ctx"
	case "sdata":
		return "Go.SessData"
	case "gsessp":
		return "Go.SessPtr"
	case "imap":
		return "(List (Int × Go.SessPtr))"
	case "rwp":
		return "Bool"
	case "httpc":
		return "Go.HTTPClient"
	case "logger":
		return "Go.Logger"
	case "cache", "tcache":
		return "Go.CacheS"
	case "citem":
		return "Go.CacheItem"
	case "elemp":
		return "(Option Go.Elem)"
	case "lru":
		return "Go.Elem"
	}
	fail(nil, "no Lean type for %q", t)
	return ""
}

func goType(e ast.Expr) string {
	switch t := e.(type) {
	case *ast.Ident:
		switch t.Name {
		case "string":
			return "str"
		case "bool":
			return "bool"
		case "int", "int64":
			return "int"
		case "float64":
			return "f64"
		case "error":
			return "error"
		case "CacheItem":
			return "citem"
		case "lruEntry":
			return "lru"
		case "TemplatedHeader":
			return "hdr"
		}
	case *ast.InterfaceType:
		return "any"
	case *ast.ArrayType:
		if t.Len == nil {
			switch goType(t.Elt) {
			case "any":
				return "anys"
			case "str":
				return "strs"
			case "hdr":
				return "hdrs"
			}
		}
	case *ast.StarExpr:
		if s, ok := t.X.(*ast.SelectorExpr); ok && src(s) == "http.Request" {
			return "req"
		}
		if s, ok := t.X.(*ast.SelectorExpr); ok && src(s) == "sessions.Session" {
			return "gsessp"
		}
		if s, ok := t.X.(*ast.SelectorExpr); ok && src(s) == "http.Client" {
			return "httpc"
		}
		if s, ok := t.X.(*ast.SelectorExpr); ok && src(s) == "sessions.Options" {
			return "sopt"
		}
		if id, ok := t.X.(*ast.Ident); ok {
			switch id.Name {
			case "TraefikOidc":
				return "inst"
			case "JWT":
				return "jwt"
			case "SessionData":
				return "sess"
			case "JWK":
				return "jwkp"
			case "JWKSet":
				return "jwks"
			case "Cache":
				return "cache"
			case "TokenCache":
				return "tcache"
			case "ProviderMetadata":
				return "metap"
			case "MetadataCache":
				return "mcache"
			case "JWKCache":
				return "jcache"
			case "Config":
				return "cfg"
			case "SessionManager":
				return "smgr"
			case "Logger":
				return "logger"
			}
		}
		if sel, ok := t.X.(*ast.SelectorExpr); ok && src(sel) == "list.Element" {
			return "elemp"
		}
	case *ast.SelectorExpr:
		switch src(t) {
		case "time.Time":
			return "time"
		case "time.Duration":
			return "dur"
		case "http.ResponseWriter":
			return "rwp"
		case "context.Context":
			return "ctx"
		}
	case *ast.MapType:
		if src(t) == "map[int]*sessions.Session" {
			return "imap"
		}
		k, v := goType(t.Key), ""
		if _, ok := t.Value.(*ast.StructType); ok {
			v = "struct"
		} else {
			v = goType(t.Value)
		}
		switch {
		case k == "str" && v == "any":
			return "obj"
		case k == "str" && v == "bool":
			return "boolmap"
		case k == "str" && v == "struct":
			return "set"
		}
	}
	fail(e, "unsupported type %s", src(e))
	return ""
}

var srcBytes = map[string][]byte{}

func src(n ast.Node) string {
	p, q := fset.Position(n.Pos()), fset.Position(n.End())
	return string(srcBytes[p.Filename][p.Offset:q.Offset])
}

func lit(s string) string {
	if s == "" {
		return "([] : Go.Str)"
	}
	var b strings.Builder
	b.WriteString("[")
	for i, r := range []rune(s) {
		if i > 0 {
			b.WriteString(",")
		}
		if r >= 128 || (r < 32 && r != '\n' && r != '\t') {
			fail(nil, "string literal with a character outside printable ASCII (strings are modelled as byte sequences)")
		}
		switch r {
		case '\'':
			b.WriteString(`'\''`)
		case '\\':
			b.WriteString(`'\\'`)
		case '\n':
			b.WriteString(`'\n'`)
		case '\t':
			b.WriteString(`'\t'`)
		default:
			b.WriteString("'" + string(r) + "'")
		}
	}
	b.WriteString("]")
	return b.String()
}

// ---------------------------------------------------------------------------------------------- per-function translation
type scope struct {
	names map[string]string // go name -> lean name
	types map[string]string // lean name -> type
}

type ctx struct {
	f       *fn
	scopes  []*scope
	fresh   int
	recv    string                // Lean name of the receiver, "" for plain functions
	pre     []string              // bindings of state-changing calls hoisted out of the expression being translated
	loops   int                   // nesting depth of loops
	retWrap []func(string) string // how `return e` is written at this nesting (function level: identity; in a loop body: `.ret e`)
	brk     []func() string       // what `break` is at this nesting
}

func (c *ctx) push() { c.scopes = append(c.scopes, &scope{map[string]string{}, map[string]string{}}) }
func (c *ctx) pop()  { c.scopes = c.scopes[:len(c.scopes)-1] }

func (c *ctx) lookup(name string) (string, string, bool) {
	for i := len(c.scopes) - 1; i >= 0; i-- {
		if ln, ok := c.scopes[i].names[name]; ok {
			return ln, c.typeOf(ln), true
		}
	}
	return "", "", false
}

func (c *ctx) typeOf(lean string) string {
	for i := len(c.scopes) - 1; i >= 0; i-- {
		if t, ok := c.scopes[i].types[lean]; ok {
			return t
		}
	}
	return ""
}

// declare introduces a Go variable in the current scope and returns its Lean name
func (c *ctx) declare(name, typ string) string {
	if name == "_" {
		c.fresh++
		return fmt.Sprintf("_u%d", c.fresh)
	}
	cur := c.scopes[len(c.scopes)-1]
	if ln, ok := cur.names[name]; ok { // redeclared in the same scope (`a, ok := …` twice): the same Lean name, shadowed
		cur.types[ln] = typ
		return ln
	}
	ln := name
	if leanKeywords[name] {
		ln = name + "_"
	}
	if _, _, visible := c.lookup(name); visible || name == "now" || name == "fuel" || byName[name] != nil || globals[name] != "" {
		c.fresh++
		ln = fmt.Sprintf("%s_%d", name, c.fresh)
	}
	cur.names[name] = ln
	cur.types[ln] = typ
	return ln
}

func (c *ctx) setType(lean, typ string) {
	for i := len(c.scopes) - 1; i >= 0; i-- {
		if _, ok := c.scopes[i].types[lean]; ok {
			c.scopes[i].types[lean] = typ
			return
		}
	}
}

// ---------------------------------------------------------------------------------------------- expressions
func (c *ctx) expr(e ast.Expr) (string, string) {
	switch x := e.(type) {
	case *ast.ParenExpr:
		s, t := c.expr(x.X)
		return "(" + s + ")", t
	case *ast.BasicLit:
		switch x.Kind {
		case token.STRING:
			s, err := strconv.Unquote(x.Value)
			if err != nil {
				fail(x, "string literal")
			}
			return lit(s), "str"
		case token.INT:
			return "(" + x.Value + " : Int)", "int"
		}
	case *ast.Ident:
		switch x.Name {
		case "true", "false":
			return x.Name, "bool"
		case "nil":
			return "none", "nil"
		}
		if ln, t, ok := c.lookup(x.Name); ok {
			return ln, t
		}
		if t, ok := globals[x.Name]; ok {
			return x.Name, t
		}
	case *ast.UnaryExpr:
		s, t := c.expr(x.X)
		switch x.Op {
		case token.NOT:
			return "(!" + s + ")", "bool"
		case token.SUB:
			return "(-" + s + ")", t
		case token.AND:
			if t == "jwk" {
				return "(some " + s + ")", "jwkp"
			}
			if t == "soptv" {
				return s, "sopt"
			}
		}
	case *ast.BinaryExpr:
		return c.binary(x)
	case *ast.SelectorExpr:
		return c.selector(x)
	case *ast.CallExpr:
		return c.call(x)
	case *ast.IndexExpr:
		m, mt := c.expr(x.X)
		k, _ := c.expr(x.Index)
		switch mt {
		case "gvals":
			return "(Go.sessVal " + c.recv + " " + m + " " + k + ")", "any"
		case "obj":
			return "(Go.mapGet " + m + " " + k + ")", "any"
		case "boolmap":
			return "(Go.boolMapGet " + m + " " + k + ")", "bool"
		case "strs":
			return "(Go.idx " + m + " " + k + ")", "str"
		}
	case *ast.TypeAssertExpr:
		if sel, ok := x.X.(*ast.SelectorExpr); ok && sel.Sel.Name == "Value" && x.Type != nil && goType(x.Type) == "lru" {
			if ev, et := c.expr(sel.X); et == "elemp" {
				return "(Go.elemValue " + ev + ")", "lru"
			}
		}
		v, t := c.expr(x.X)
		if t == "any" && x.Type != nil && goType(x.Type) == "f64" {
			return "(Go.assertF64 " + v + ")", "f64" // (panics in Go when the value holds another type)
		}
		fail(x, "unsupported type assertion")
	case *ast.SliceExpr:
		v, t := c.expr(x.X)
		if t != "str" || x.Slice3 {
			fail(x, "slice of a %s", t)
		}
		if x.Low != nil && x.High == nil {
			lo, _ := c.expr(x.Low)
			return "(Go.sliceFrom " + v + " " + lo + ")", "str"
		}
		if x.Low == nil && x.High != nil {
			hi, _ := c.expr(x.High)
			return "(Go.sliceTo " + v + " " + hi + ")", "str"
		}
		fail(x, "unsupported slice form")
	case *ast.CompositeLit:
		if sel, ok := x.Type.(*ast.SelectorExpr); ok && src(sel) == "sessions.Options" {
			// every field the library knows is written out: the ones the literal does not name have Go's zero value
			fields := map[string]string{"HttpOnly": "false", "Secure": "false", "SameSite": "Go.SameSite.default", "MaxAge": "(0 : Int)", "Path": "([] : Go.Str)", "Domain": "([] : Go.Str)"}
			for _, el := range x.Elts {
				kv, ok := el.(*ast.KeyValueExpr)
				if !ok {
					fail(x, "composite literal without field names")
				}
				if _, known := fields[src(kv.Key)]; !known {
					fail(x, "field %s of sessions.Options", src(kv.Key))
				}
				v, _ := c.expr(kv.Value)
				fields[src(kv.Key)] = v
			}
			return "({ HttpOnly := " + fields["HttpOnly"] + ", Secure := " + fields["Secure"] + ", SameSite := " + fields["SameSite"] + ", MaxAge := " + fields["MaxAge"] +
				", Path := " + fields["Path"] + ", Domain := " + fields["Domain"] + " } : Go.SessOptions)", "soptv"
		}
		if id, ok := x.Type.(*ast.Ident); ok && (id.Name == "CacheItem" || id.Name == "lruEntry") {
			fields := map[string]string{}
			for _, el := range x.Elts {
				kv, ok := el.(*ast.KeyValueExpr)
				if !ok {
					fail(x, "composite literal without field names")
				}
				v, _ := c.expr(kv.Value)
				fields[src(kv.Key)] = v
			}
			if id.Name == "lruEntry" && len(fields) == 1 && fields["key"] != "" {
				return "(Go.lruEntry " + fields["key"] + ")", "lru"
			}
			if id.Name == "CacheItem" && len(fields) == 2 && fields["Value"] != "" && fields["ExpiresAt"] != "" {
				return "({ Value := " + fields["Value"] + ", ExpiresAt := " + fields["ExpiresAt"] + " } : Go.CacheItem)", "citem"
			}
			fail(x, "unsupported composite literal")
		}
		if goType(x.Type) == "boolmap" {
			var items []string
			for _, el := range x.Elts {
				kv := el.(*ast.KeyValueExpr)
				k, _ := c.expr(kv.Key)
				v, _ := c.expr(kv.Value)
				items = append(items, "("+k+", "+v+")")
			}
			return "([" + strings.Join(items, ", ") + "] : List (Go.Str × Bool))", "boolmap"
		}
	}
	fail(e, "unsupported expression %s", src(e))
	return "", ""
}

func (c *ctx) binary(x *ast.BinaryExpr) (string, string) {
	// comparisons with nil
	if id, ok := x.Y.(*ast.Ident); ok && id.Name == "nil" && (x.Op == token.NEQ || x.Op == token.EQL) {
		if sel, ok := x.X.(*ast.SelectorExpr); ok && src(sel.X) != "" {
			if _, t := c.expr(sel.X); t == "req" && sel.Sel.Name == "TLS" {
				r, _ := c.expr(sel.X)
				if x.Op == token.NEQ {
					return r + ".tls", "bool"
				}
				return "(!" + r + ".tls)", "bool"
			}
		}
		s, t := c.expr(x.X)
		if t == "reqp" || t == "rwp" {
			if x.Op == token.NEQ {
				return s, "bool"
			}
			return "(!" + s + ")", "bool"
		}
		if t == "error" || t == "jwkp" || t == "elemp" || t == "metap" || t == "jwksp" {
			if x.Op == token.NEQ {
				return s + ".isSome", "bool"
			}
			return s + ".isNone", "bool"
		}
		fail(x, "comparison with nil of a %s", t)
	}
	if x.Op == token.SHL { // a constant shift: evaluated here
		if l, ok := x.X.(*ast.BasicLit); ok && l.Kind == token.INT {
			if r, ok := x.Y.(*ast.BasicLit); ok && r.Kind == token.INT {
				lv, _ := strconv.ParseInt(l.Value, 0, 64)
				rv, _ := strconv.ParseInt(r.Value, 0, 64)
				if lv > 0 && rv >= 0 && rv < 63 && lv<<uint(rv)>>uint(rv) == lv {
					return fmt.Sprintf("(%d : Int)", lv<<uint(rv)), "int"
				}
			}
		}
		fail(x, "shift that is not a small constant")
	}
	a, ta := c.expr(x.X)
	npre := len(c.pre)
	b, tb := c.expr(x.Y)
	if ta == "f64" && tb == "int" && (x.Op == token.GEQ || x.Op == token.LEQ) {
		// a float64 against an integer constant: `v >= c` for c >= 0 and `v <= -c` for c >= 0 are decided by the whole-number part of v
		// (truncation toward zero), which is all the model keeps of a float64
		if id, ok := x.Y.(*ast.Ident); ok && x.Op == token.GEQ && globals[id.Name] == "int" {
			return "(Go.f64GeNonneg " + a + " " + b + ")", "bool"
		}
		if u, ok := x.Y.(*ast.UnaryExpr); ok && u.Op == token.SUB && x.Op == token.LEQ {
			if id, ok := u.X.(*ast.Ident); ok && globals[id.Name] == "int" {
				return "(Go.f64LeNonpos " + a + " " + b + ")", "bool"
			}
		}
		fail(x, "comparison of a float64 with something that is not ±a named non-negative constant")
	}
	if (x.Op == token.LAND || x.Op == token.LOR) && len(c.pre) != npre {
		fail(x, "call on the shared state in the right operand of a short-circuit operator")
	}
	switch x.Op {
	case token.LAND:
		return "(" + a + " && " + b + ")", "bool"
	case token.LOR:
		return "(" + a + " || " + b + ")", "bool"
	case token.EQL:
		return "(" + a + " == " + b + ")", "bool"
	case token.NEQ:
		return "(" + a + " != " + b + ")", "bool"
	case token.LSS, token.GTR, token.LEQ, token.GEQ:
		if (ta == "int" || ta == "dur" || ta == "time") && (tb == "int" || tb == "dur" || tb == "time") {
			op := map[token.Token]string{token.LSS: "<", token.GTR: ">", token.LEQ: "≤", token.GEQ: "≥"}[x.Op]
			return "(decide (" + a + " " + op + " " + b + "))", "bool"
		}
	case token.ADD, token.SUB, token.MUL:
		op := map[token.Token]string{token.ADD: "+", token.SUB: "-", token.MUL: "*"}[x.Op]
		if ta == "str" && tb == "str" && x.Op == token.ADD {
			return "(" + a + " ++ " + b + ")", "str"
		}
		if (ta == "int" || ta == "dur") && (tb == "int" || tb == "dur") {
			t := "int"
			if ta == "dur" || tb == "dur" {
				t = "dur"
			}
			return "(" + a + " " + op + " " + b + ")", t
		}
	}
	fail(x, "unsupported operator %s on %s and %s", x.Op, ta, tb)
	return "", ""
}

func (c *ctx) selector(x *ast.SelectorExpr) (string, string) {
	switch src(x) {
	case "time.Nanosecond", "time.Microsecond", "time.Millisecond", "time.Second", "time.Minute", "time.Hour":
		return "Go." + x.Sel.Name, "dur"
	case "http.SameSiteLaxMode":
		return "Go.SameSite.lax", "samesite"
	case "http.SameSiteStrictMode":
		return "Go.SameSite.strict", "samesite"
	case "http.SameSiteNoneMode":
		return "Go.SameSite.none", "samesite"
	case "http.SameSiteDefaultMode":
		return "Go.SameSite.default", "samesite"
	}
	r, t := c.expr(x.X)
	switch t + "." + x.Sel.Name {
	case "req.Host":
		return r + ".host", "str"
	case "jwt.Header", "jwt.Claims":
		return r + "." + x.Sel.Name, "obj"
	case "inst.excludedURLs", "inst.allowedUserDomains", "inst.allowedRolesAndGroups":
		return r + "." + x.Sel.Name, "set"
	case "inst.refreshGracePeriod":
		return r + "." + x.Sel.Name, "dur"
	case "inst.issuerURL", "inst.clientID":
		return r + "." + x.Sel.Name, "str"
	case "jwks.Keys":
		return r + ".Keys", "jwklist"
	case "jwk.Kid", "jwk.Kty":
		return r + "." + x.Sel.Name, "str"
	case "tcache.cache": // (a TokenCache is its one Cache: the wrapper struct has no other field)
		return r, "cache"
	case "cache.items":
		return r + ".items", "cmap"
	case "cache.elems":
		return r + ".elems", "emap"
	case "cache.order":
		return r + ".order", "clist"
	case "cache.maxSize":
		return r + ".maxSize", "int"
	case "citem.Value":
		return r + ".Value", "any"
	case "citem.ExpiresAt":
		return r + ".ExpiresAt", "time"
	case "lru.key":
		return "(Go.lruKey " + r + ")", "str"
	case "mcache.metadata":
		return r + ".metadata", "metap"
	case "mcache.expiresAt":
		return r + ".expiresAt", "time"
	case "cfg.ProviderURL", "cfg.CallbackURL", "cfg.ClientID", "cfg.ClientSecret", "cfg.SessionEncryptionKey", "cfg.LogLevel", "cfg.RevocationURL",
		"cfg.OIDCEndSessionURL", "cfg.PostLogoutRedirectURI", "hdr.Name", "hdr.Value":
		return r + "." + x.Sel.Name, "str"
	case "smgr.forceHTTPS":
		return r + ".forceHTTPS", "bool"
	case "cfg.ExcludedURLs":
		return r + ".ExcludedURLs", "strs"
	case "cfg.RateLimit", "cfg.RefreshGracePeriodSeconds":
		return r + "." + x.Sel.Name, "int"
	case "cfg.Headers":
		return r + ".Headers", "hdrs"
	case "jcache.jwks":
		return r + ".jwks", "jwksp"
	case "jcache.expiresAt":
		return r + ".expiresAt", "time"
	case "jcache.CacheLifetime":
		return r + ".CacheLifetime", "dur"
	case "sdata.mainSession", "sdata.accessSession", "sdata.refreshSession":
		return r + "." + x.Sel.Name, "gsessp"
	case "sdata.accessTokenChunks", "sdata.refreshTokenChunks":
		return r + "." + x.Sel.Name, "imap"
	case "sdata.request":
		return r + ".hasRequest", "reqp"
	case "gsessp.IsNew":
		return "(Go.sessIsNew " + c.recv + " " + r + ")", "bool"
	case "gsessp.Values":
		return r, "gvals"
	}
	fail(x, "unsupported field %s of a %s", x.Sel.Name, t)
	return "", ""
}

func isLogger(e ast.Expr) bool {
	call, ok := e.(*ast.CallExpr)
	if !ok {
		return false
	}
	s := src(call.Fun)
	return strings.Contains(s, ".logger.") || strings.HasPrefix(s, "logger.") || strings.HasPrefix(s, "log.")
}

// isLoggerVar: a call of a method of a variable of type *Logger
func (c *ctx) isLoggerVar(e ast.Expr) bool {
	call, ok := e.(*ast.CallExpr)
	if !ok {
		return false
	}
	sel, ok := call.Fun.(*ast.SelectorExpr)
	if !ok {
		return false
	}
	id, ok := sel.X.(*ast.Ident)
	if !ok {
		return false
	}
	_, t, ok := c.lookup(id.Name)
	return ok && t == "logger"
}

func (c *ctx) args(call *ast.CallExpr) ([]string, []string) {
	var as, ts []string
	for _, a := range call.Args {
		s, t := c.expr(a)
		as = append(as, s)
		ts = append(ts, t)
	}
	return as, ts
}

func (c *ctx) call(x *ast.CallExpr) (string, string) {
	fun := src(x.Fun)
	switch fun {
	case "len":
		a, t := c.expr(x.Args[0])
		switch t {
		case "str", "strs", "anys", "set", "obj", "boolmap", "cmap", "emap", "imap":
			return "(" + a + ".length : Int)", "int"
		}
		fail(x, "len of a %s", t)
	case "int64", "int":
		a, t := c.expr(x.Args[0])
		if t == "f64" {
			return "(Go.int64 " + a + ")", "int"
		}
		if t == "int" {
			return a, "int"
		}
		fail(x, "conversion of a %s", t)
	case "time.Now":
		if clocked[c.f.key] {
			c.f.stateful = true
			return "(ops.clock w)", "time"
		}
		c.f.needsNow = true
		return "now", "time"
	case "time.Since":
		a, _ := c.expr(x.Args[0])
		if clocked[c.f.key] {
			c.f.stateful = true
			return "(Go.timeSub (ops.clock w) " + a + ")", "dur"
		}
		c.f.needsNow = true
		return "(Go.timeSub now " + a + ")", "dur"
	case "strings.TrimSuffix":
		as, _ := c.args(x)
		return "(Go.trimSuffix " + as[0] + " " + as[1] + ")", "str"
	case "time.Until":
		c.f.needsNow = true
		as, _ := c.args(x)
		return "(Go.timeSub " + as[0] + " now)", "dur"
	case "append":
		if len(x.Args) != 2 || x.Ellipsis.IsValid() {
			fail(x, "append with other than one element")
		}
		as, ts := c.args(x)
		if ts[0] != "strs" && ts[0] != "anys" {
			fail(x, "append to a %s", ts[0])
		}
		return "(" + as[0] + " ++ [" + as[1] + "])", ts[0]
	case "strings.Contains":
		as, _ := c.args(x)
		return "(Go.contains " + as[0] + " " + as[1] + ")", "bool"
	case "":
	}
	if sel, ok := x.Fun.(*ast.SelectorExpr); ok && sel.Sel.Name == "Save" && len(x.Args) == 2 {
		if px, pt, ok := c.tryExpr(sel.X); ok && pt == "gsessp" && c.f.recvMut {
			c.fresh++
			e := fmt.Sprintf("saveErr_%d", c.fresh)
			c.pre = append(c.pre, fmt.Sprintf("let (%s, %s) := Go.sessSave %s %s\n", e, c.recv, c.recv, px))
			return e, "error"
		}
	}
	switch fun {
	case "compressToken", "decompressToken":
		if _, rt, _ := c.lookup(c.recv); rt != "sdata" {
			fail(x, "%s outside a method of the session data", fun)
		}
		a, _ := c.expr(x.Args[0])
		return "(" + c.recv + "." + strings.TrimSuffix(fun, "Token") + " " + a + ")", "str"
	case "strings.Join":
		as, ts := c.args(x)
		if ts[0] != "strs" {
			fail(x, "Join of a %s", ts[0])
		}
		return "(Go.strsJoin " + as[0] + " " + as[1] + ")", "str"
	case "make":
		if goType(x.Args[0]) == "imap" && len(x.Args) == 1 {
			return "([] : List (Int × Go.SessPtr))", "imap"
		}
		fail(x, "make of %s", src(x.Args[0]))
	case "fmt.Sprintf":
		l, ok := x.Args[0].(*ast.BasicLit)
		if !ok || l.Kind != token.STRING {
			fail(x, "format that is not a literal")
		}
		f, _ := strconv.Unquote(l.Value)
		if f == "%s_%d" && len(x.Args) == 3 {
			as, ts := c.args(x)
			if ts[1] != "str" || ts[2] != "int" {
				fail(x, "%%s_%%d applied to %s and %s", ts[1], ts[2])
			}
			return "(Go.chunkName " + as[1] + " " + as[2] + ")", "str"
		}
		pieces := strings.Split(f, "%s")
		if strings.Contains(strings.Join(pieces, ""), "%") || len(pieces) != len(x.Args) {
			fail(x, "format with verbs other than %%s, or a wrong number of arguments")
		}
		var parts []string
		for i, p := range pieces {
			if p != "" {
				parts = append(parts, lit(p))
			}
			if i+1 < len(pieces) {
				a, t := c.expr(x.Args[i+1])
				if t != "str" {
					fail(x, "%%s applied to a %s", t)
				}
				parts = append(parts, a)
			}
		}
		if len(parts) == 0 {
			return lit(""), "str"
		}
		return "(" + strings.Join(parts, " ++ ") + ")", "str"
	case "time.Unix":
		as, _ := c.args(x)
		return "(Go.timeUnix " + as[0] + " " + as[1] + ")", "time"
	case "fmt.Errorf", "errors.New":
		l, ok := x.Args[0].(*ast.BasicLit)
		if !ok || l.Kind != token.STRING {
			fail(x, "error message that is not a literal")
		}
		f, _ := strconv.Unquote(l.Value)
		// the text of the error: literal pieces, `%w` of an error = that error's text, `%s` of a string = the string; any other
		// verb (numbers, times, `%v`) stays in the text as written - no translated function decides on those parts
		var parts []string
		rest := f
		argi := 1
		for {
			i := strings.Index(rest, "%")
			if i < 0 || i+1 >= len(rest) {
				if rest != "" {
					parts = append(parts, lit(rest))
				}
				break
			}
			verb := rest[i+1]
			piece := rest[:i]
			done := false
			if (verb == 'w' || verb == 's') && argi < len(x.Args) {
				func() {
					defer func() { recover() }()
					a, t := c.expr(x.Args[argi])
					if verb == 'w' && t == "error" {
						if piece != "" {
							parts = append(parts, lit(piece))
						}
						parts = append(parts, "(Go.errText "+a+")")
						done = true
					} else if verb == 's' && t == "str" {
						if piece != "" {
							parts = append(parts, lit(piece))
						}
						parts = append(parts, a)
						done = true
					}
				}()
			}
			if !done {
				parts = append(parts, lit(rest[:i+2]))
			}
			if verb != '%' {
				argi++
			}
			rest = rest[i+2:]
		}
		if len(parts) == 0 {
			return "(some " + lit("") + ")", "error"
		}
		return "(some (" + strings.Join(parts, " ++ ") + "))", "error"
	case "strings.HasPrefix", "strings.HasSuffix":
		as, _ := c.args(x)
		return "(Go." + map[string]string{"strings.HasPrefix": "hasPrefix", "strings.HasSuffix": "hasSuffix"}[fun] + " " + as[0] + " " + as[1] + ")", "bool"
	case "strings.Split":
		if l, ok := x.Args[1].(*ast.BasicLit); !ok || len(l.Value) != 3 {
			fail(x, "strings.Split with a separator that is not one character")
		}
		as, _ := c.args(x)
		return "(Go.split " + as[0] + " " + as[1] + ")", "strs"
	}
	if ce, ok := clockedExternals[fun]; ok && clocked[c.f.key] && len(ce.res) <= 1 {
		var as []string
		for _, i := range ce.args {
			a, _ := c.expr(x.Args[i])
			as = append(as, a)
		}
		return c.statefulCall(x, "ops."+ce.field, false, ce.res, append([]string{"w"}, as...))
	}
	// time.Duration(math.Pow(2, float64(n))): a power of two as a count of nanoseconds
	if fun == "time.Duration" && len(x.Args) == 1 {
		if pc, ok := x.Args[0].(*ast.CallExpr); ok && src(pc.Fun) == "math.Pow" && len(pc.Args) == 2 && src(pc.Args[0]) == "2" {
			if fc, ok := pc.Args[1].(*ast.CallExpr); ok && src(fc.Fun) == "float64" {
				n, nt := c.expr(fc.Args[0])
				if nt == "int" {
					return "(Go.pow2 " + n + ")", "dur"
				}
			}
		}
	}
	// time.Duration(float64(d) * 0.1): a duration scaled by a decimal constant (truncated toward zero)
	if fun == "time.Duration" && len(x.Args) == 1 {
		if be, ok := x.Args[0].(*ast.BinaryExpr); ok && be.Op == token.MUL {
			if fc, ok := be.X.(*ast.CallExpr); ok && src(fc.Fun) == "float64" {
				if fl, ok := be.Y.(*ast.BasicLit); ok && fl.Kind == token.FLOAT && strings.HasPrefix(fl.Value, "0.") {
					d, dt := c.expr(fc.Args[0])
					if dt == "dur" {
						digits := fl.Value[2:]
						return "(Go.durScale " + d + " (" + strings.TrimLeft(digits, "0") + " : Int) (1" + strings.Repeat("0", len(digits)) + " : Int))", "dur"
					}
				}
			}
		}
		fail(x, "unsupported conversion to time.Duration")
	}
	if sel, ok := x.Fun.(*ast.SelectorExpr); ok {
		if inner, ok := sel.X.(*ast.SelectorExpr); ok && inner.Sel.Name == "order" {
			if r, t := c.expr(inner.X); t == "cache" && sel.Sel.Name == "Front" {
				return "(Go.listFront " + r + ".order)", "elemp"
			}
		}
		if sel.Sel.Name == "Next" && len(x.Args) == 0 {
			if ev, et := c.expr(sel.X); et == "elemp" && c.recv != "" {
				return "(Go.listNext " + c.recv + ".order " + ev + ")", "elemp"
			}
		}
	}
	if se, ok := statefulExternals[fun]; ok && len(se.res) <= 1 {
		as, ts := c.args(x)
		if se.anyAt >= 0 {
			as[se.anyAt] = anyWrap(as[se.anyAt], ts[se.anyAt])
		}
		pre := []string{"w"}
		if se.now {
			pre = append(pre, "now")
		}
		return c.statefulCall(x, "ops."+se.field, se.now, se.res, append(pre, as...))
	}
	// methods
	if sel, ok := x.Fun.(*ast.SelectorExpr); ok {
		// req.Header.Get("Name")
		if inner, ok := sel.X.(*ast.SelectorExpr); ok && inner.Sel.Name == "Header" && sel.Sel.Name == "Get" {
			if r, t := c.expr(inner.X); t == "req" {
				l, ok := x.Args[0].(*ast.BasicLit)
				if !ok {
					fail(x, "header name that is not a literal")
				}
				name, _ := strconv.Unquote(l.Value)
				if canonical(name) != name {
					fail(x, "header name %q is not in canonical form", name)
				}
				return "(Go.headerGet " + r + " " + lit(name) + ")", "str"
			}
		}
		if id, ok := sel.X.(*ast.Ident); !ok || (id.Name != "strings" && id.Name != "time" && id.Name != "fmt") {
			r, t := c.expr(sel.X)
			switch t + "." + sel.Sel.Name {
			case "time.Add":
				as, _ := c.args(x)
				return "(Go.timeAdd " + r + " " + as[0] + ")", "time"
			case "time.Sub":
				as, _ := c.args(x)
				return "(Go.timeSub " + r + " " + as[0] + ")", "dur"
			case "time.After", "time.Before", "time.Equal":
				as, _ := c.args(x)
				return "(Go.time" + sel.Sel.Name + " " + r + " " + as[0] + ")", "bool"
			case "time.UTC":
				return r, "time"
			case "time.Unix":
				return "(Go.timeToUnix " + r + ")", "int"
			case "dur.Seconds":
				return "(Go.durSeconds " + r + ")", "f64"
			case "error.Error":
				return "(Go.errText " + r + ")", "str"
			}
			if t == "sess" {
				if rt, ok := sessGetters[sel.Sel.Name]; ok && len(x.Args) == 0 {
					return r + "." + sel.Sel.Name, rt
				}
			}
			if rts, ok := externals[fun]; ok && len(rts) == 1 {
				as, _ := c.args(x)
				return "(" + r + "." + sel.Sel.Name + " " + strings.Join(as, " ") + ")", rts[0]
			}
			if g := methodOf(t, sel.Sel.Name); g != nil && (t == "inst" || t == "jwt" || t == "mcache" && !g.recvMut) {
				return c.callTranslated(g, x, r)
			}
			fail(x, "unsupported method %s on a %s", sel.Sel.Name, t)
		}
	}
	if id, ok := x.Fun.(*ast.Ident); ok {
		if g := byName[id.Name]; g != nil && g.decl.Recv == nil {
			return c.callTranslated(g, x, "")
		}
		if rts, ok := externals[fun]; ok && len(rts) == 1 && c.recv != "" {
			as, _ := c.args(x)
			return "(" + c.recv + "." + fun + " " + strings.Join(as, " ") + ")", rts[0]
		}
	}
	fail(x, "unsupported call %s", fun)
	return "", ""
}

// recvStmt translates a call statement of a method that changes its receiver struct in place (cache.go)
func (c *ctx) recvStmt(call *ast.CallExpr, k func() string) (string, bool) {
	fun := src(call.Fun)
	r := c.recv
	upd := func(field, val string) string {
		return fmt.Sprintf("let %s := { %s with %s := %s }\n%s", r, r, field, val, k())
	}
	switch {
	case strings.HasPrefix(fun, r+".mutex."):
		return k(), true
	case fun == r+".order.MoveToBack" || fun == r+".order.Remove" || fun == r+".order.MoveToFront":
		a, t := c.expr(call.Args[0])
		if t != "elemp" {
			fail(call, "list operation on a %s", t)
		}
		op := map[string]string{"MoveToBack": "listMoveToBack", "Remove": "listRemove", "MoveToFront": "listMoveToFront"}[fun[len(r+".order."):]]
		return upd("order", "Go."+op+" "+r+".order "+a), true
	case fun == "delete" && len(call.Args) == 2:
		m, mt := c.expr(call.Args[0])
		key, _ := c.expr(call.Args[1])
		switch mt {
		case "cmap":
			return upd("items", "Go.cmapDel "+m+" "+key), true
		case "emap":
			return upd("elems", "Go.emapDel "+m+" "+key), true
		}
		fail(call, "delete on a %s", mt)
	}
	if sel, ok := call.Fun.(*ast.SelectorExpr); ok {
		if rx, rt, okx := c.tryExpr(sel.X); okx {
			if rx == r {
				if g := methodOf(rt, sel.Sel.Name); g != nil && g.recvMut && len(g.retTypes) == 0 {
					c.f.calls = append(c.f.calls, g.key)
					parts := []string{leanName(g.key)}
					if g.fuel {
						c.f.fuel = true
						parts = append(parts, "fuel")
					}
					if g.needsNow {
						c.f.needsNow = true
						parts = append(parts, "now")
					}
					parts = append(parts, r)
					as, ts := c.args(call)
					for i := range as {
						if i < len(g.paramTypes) && g.paramTypes[i] == "any" && ts[i] != "any" {
							as[i] = anyWrap(as[i], ts[i])
						}
						if i < len(g.paramTypes) && g.paramTypes[i] == "rwp" && ts[i] == "nil" {
							as[i] = "false"
						}
					}
					parts = append(parts, as...)
					callS := "(" + strings.Join(parts, " ") + ")"
					if g.fuel {
						return fmt.Sprintf("match %s with\n| none => none\n| some %s =>\n%s", callS, r, indent(k())), true
					}
					return fmt.Sprintf("let %s := %s\n%s", r, callS, k()), true
				}
			}
		}
	}
	return "", false
}

// tryExpr translates an expression if it can (no failure escapes)
func (c *ctx) tryExpr(e ast.Expr) (s, t string, ok bool) {
	defer func() {
		if p := recover(); p != nil {
			if _, isU := p.(unsupported); isU {
				ok = false
				return
			}
			panic(p)
		}
	}()
	s, t = c.expr(e)
	return s, t, true
}

// takePre returns (and forgets) the bindings of the state-changing calls made by the expressions translated so far; a statement
// puts them in front of its own code BEFORE it asks for the code that follows it
func (c *ctx) takePre() string {
	if len(c.pre) == 0 {
		return ""
	}
	p := strings.Join(c.pre, "\n") + "\n"
	c.pre = nil
	return p
}

func anyWrap(v, t string) string {
	switch t {
	case "any":
		return v
	case "bool":
		return "(Go.Any.bool " + v + ")"
	case "str":
		return "(Go.Any.str " + v + ")"
	case "obj":
		return "(Go.Any.obj " + v + ")"
	case "int":
		return "(Go.Any.int " + v + ")"
	}
	fail(nil, "a %s passed as interface{}", t)
	return ""
}

// statefulCall hoists a call on the shared state out of the expression: binds its result (and the new state) before the statement
func (c *ctx) statefulCall(x *ast.CallExpr, callee string, needNow bool, res []string, args []string) (string, string) {
	c.f.stateful = true
	parts := []string{callee}
	if needNow {
		c.f.needsNow = true
	}
	parts = append(parts, args...)
	call := "(" + strings.Join(parts, " ") + ")"
	switch len(res) {
	case 0:
		c.pre = append(c.pre, "let w := "+call)
		return "()", "unit"
	case 1:
		c.fresh++
		tmp := fmt.Sprintf("r_%d", c.fresh)
		c.pre = append(c.pre, fmt.Sprintf("let (%s, w) := %s", tmp, call))
		return tmp, res[0]
	}
	fail(x, "call on the shared state with several results inside an expression")
	return "", ""
}

func canonical(s string) string {
	up := true
	b := []byte(s)
	for i, ch := range b {
		if up && 'a' <= ch && ch <= 'z' {
			b[i] = ch - 32
		} else if !up && 'A' <= ch && ch <= 'Z' {
			b[i] = ch + 32
		}
		up = ch == '-'
	}
	return string(b)
}

func (c *ctx) callTranslated(g *fn, x *ast.CallExpr, recv string) (string, string) {
	c.f.calls = append(c.f.calls, g.key)
	if g.fuel || g.recvMut {
		fail(x, "call of a function with a general loop, or of a method that changes its struct, inside an expression (%s)", g.key)
	}
	parts := []string{leanName(g.key)}
	if g.needsNow {
		if clocked[c.f.key] {
			c.f.stateful = true
			parts = append(parts, "(ops.clock w)")
		} else {
			c.f.needsNow = true
			parts = append(parts, "now")
		}
	}
	if recv != "" {
		parts = append(parts, recv)
	}
	as, _ := c.args(x)
	parts = append(parts, as...)
	rt := "unit"
	if len(g.retTypes) == 1 {
		rt = g.retTypes[0]
	} else if len(g.retTypes) > 1 {
		fail(x, "call of a function with several results inside an expression")
	}
	if g.stateful {
		callee := parts[0] + " ops"
		return c.statefulCall(x, callee, false, g.retTypes, append(parts[1:], "w"))
	}
	return "(" + strings.Join(parts, " ") + ")", rt
}

func leanName(key string) string { return strings.Replace(key, ".", "_", 1) }

// methodOf finds the translated method `name` of the Go type behind a type tag
func methodOf(tag, name string) *fn {
	goT := map[string]string{"inst": "TraefikOidc", "jwt": "JWT", "cache": "Cache", "tcache": "TokenCache", "mcache": "MetadataCache", "jcache": "JWKCache", "cfg": "Config", "smgr": "SessionManager", "sdata": "SessionData"}[tag]
	if goT == "" {
		return nil
	}
	return funcs[goT+"."+name]
}

// ---------------------------------------------------------------------------------------------- statements
// stmts translates a statement list; k produces the code that follows it (called once per path that falls through)
func (c *ctx) stmts(list []ast.Stmt, k func() string) string {
	if len(list) == 0 {
		return k()
	}
	return c.stmt(list[0], func() string { return c.stmts(list[1:], k) })
}

func (c *ctx) block(b *ast.BlockStmt, k func() string) string {
	c.push()
	depth := len(c.scopes)
	out := c.stmts(b.List, func() string {
		// the continuation runs outside the block's scope
		saved := c.scopes[depth-1:]
		c.scopes = c.scopes[:depth-1]
		s := k()
		c.scopes = append(c.scopes, saved...)
		return s
	})
	c.pop()
	return out
}

func zero(t string) string {
	switch t {
	case "error":
		return "(none : Go.Err)"
	case "str":
		return "([] : Go.Str)"
	case "bool":
		return "false"
	case "int":
		return "(0 : Int)"
	case "strs":
		return "([] : List Go.Str)"
	case "anys":
		return "([] : List Go.Any)"
	case "jwkp":
		return "(none : Option Go.JWK)"
	case "metap":
		return "(none : Option Go.Meta)"
	case "jwksp":
		return "(none : Option Go.JWKSet)"
	}
	fail(nil, "zero value of a %s", t)
	return ""
}

func (c *ctx) assign(s *ast.AssignStmt, k func() string) string {
	def := s.Tok == token.DEFINE
	bind := func(e ast.Expr, typ string) string {
		id, ok := e.(*ast.Ident)
		if !ok {
			fail(e, "assignment to something that is not a variable")
		}
		if id.Name == "_" {
			return c.declare("_", typ)
		}
		if def {
			return c.declare(id.Name, typ)
		}
		ln, _, ok := c.lookup(id.Name)
		if !ok {
			fail(e, "assignment to an unknown variable %s", id.Name)
		}
		c.setType(ln, typ)
		return ln
	}
	if s.Tok != token.DEFINE && s.Tok != token.ASSIGN {
		fail(s, "unsupported assignment operator")
	}
	if _, rt, _ := c.lookup(c.recv); c.f.recvMut && rt == "sdata" && len(s.Lhs) == 1 && len(s.Rhs) == 1 && s.Tok == token.ASSIGN {
		r := c.recv
		switch l := s.Lhs[0].(type) {
		case *ast.SelectorExpr:
			if src(l.X) == r && (l.Sel.Name == "accessTokenChunks" || l.Sel.Name == "refreshTokenChunks") { // sd.accessTokenChunks = make(…)
				v, vt := c.expr(s.Rhs[0])
				if vt != "imap" {
					fail(s, "assignment of a %s to %s", vt, src(l))
				}
				return c.takePre() + fmt.Sprintf("let %s := { %s with %s := %s }\n%s", r, r, l.Sel.Name, v, k())
			}
			if px, pt, ok := c.tryExpr(l.X); ok && pt == "gsessp" && l.Sel.Name == "Values" { // session.Values = make(map[interface{}]interface{})
				if call, ok := s.Rhs[0].(*ast.CallExpr); ok && src(call.Fun) == "make" && len(call.Args) == 1 && src(call.Args[0]) == "map[interface{}]interface{}" {
					return fmt.Sprintf("let %s := Go.sessClearValues %s %s\n%s", r, r, px, k())
				}
				fail(s, "assignment to the values of a session")
			}
			if px, pt, ok := c.tryExpr(l.X); ok && pt == "gsessp" && l.Sel.Name == "ID" { // session.ID = id: the cookie store neither writes nor reads a session's ID
				_ = px
				if _, vt := c.expr(s.Rhs[0]); vt != "str" {
					fail(s, "session ID set to a %s", vt)
				}
				return c.takePre() + k()
			}
			if inner, ok := l.X.(*ast.SelectorExpr); ok && inner.Sel.Name == "Options" && l.Sel.Name == "MaxAge" { // session.Options.MaxAge = -1
				if px, pt, ok := c.tryExpr(inner.X); ok && pt == "gsessp" {
					v, vt := c.expr(s.Rhs[0])
					if vt != "int" {
						fail(s, "MaxAge set to a %s", vt)
					}
					return fmt.Sprintf("let %s := Go.sessSetMaxAge %s %s %s\n%s", r, r, px, v, k())
				}
			}
		case *ast.IndexExpr:
			m, mt := c.expr(l.X)
			key, _ := c.expr(l.Index)
			v, vt := c.expr(s.Rhs[0])
			switch mt {
			case "gvals": // session.Values["token"] = compressed
				return c.takePre() + fmt.Sprintf("let %s := Go.sessSetVal %s %s %s %s\n%s", r, r, m, key, anyWrap(v, vt), k())
			case "imap": // sd.accessTokenChunks[i] = session
				if sel, ok := l.X.(*ast.SelectorExpr); ok && src(sel.X) == r && vt == "gsessp" {
					return fmt.Sprintf("let %s := { %s with %s := Go.imapSet %s %s %s }\n%s", r, r, sel.Sel.Name, m, key, v, k())
				}
			}
			fail(s, "assignment to an element of a %s", mt)
		}
	}
	if c.f.recvMut && len(s.Lhs) == 1 && len(s.Rhs) == 1 && s.Tok == token.ASSIGN {
		if sel, ok := s.Lhs[0].(*ast.SelectorExpr); ok && src(sel.X) == c.recv {
			if _, rt, _ := c.lookup(c.recv); rt == "mcache" && (sel.Sel.Name == "metadata" || sel.Sel.Name == "expiresAt") ||
				rt == "jcache" && (sel.Sel.Name == "jwks" || sel.Sel.Name == "expiresAt") {
				v, vt := c.expr(s.Rhs[0])
				if vt == "nil" {
					if sel.Sel.Name != "metadata" && sel.Sel.Name != "jwks" {
						fail(s, "nil assigned to %s", src(sel))
					}
					v = "(none : Option Go.Meta)"
					if rt == "jcache" {
						v = "(none : Option Go.JWKSet)"
					}
				}
				hp := c.takePre()
				return hp + fmt.Sprintf("let %s := { %s with %s := %s }\n%s", c.recv, c.recv, sel.Sel.Name, v, k())
			}
		}
	}
	if c.f.recvMut && len(s.Lhs) == 1 && len(s.Rhs) == 1 {
		r := c.recv
		if ix, ok := s.Lhs[0].(*ast.IndexExpr); ok && s.Tok == token.ASSIGN { // c.items[key] = v, c.elems[key] = elem
			m, mt := c.expr(ix.X)
			key, _ := c.expr(ix.Index)
			v, _ := c.expr(s.Rhs[0])
			switch mt {
			case "cmap":
				return fmt.Sprintf("let %s := { %s with items := Go.cmapSet %s %s %s }\n%s", r, r, m, key, v, k())
			case "emap":
				return fmt.Sprintf("let %s := { %s with elems := Go.emapSet %s %s %s }\n%s", r, r, m, key, v, k())
			}
			fail(s, "assignment to an element of a %s", mt)
		}
		if call, ok := s.Rhs[0].(*ast.CallExpr); ok && src(call.Fun) == r+".order.PushBack" { // elem := c.order.PushBack(v)
			v, vt := c.expr(call.Args[0])
			if vt != "lru" {
				fail(s, "PushBack of a %s", vt)
			}
			e := bind(s.Lhs[0], "elemp")
			c.fresh++
			l := fmt.Sprintf("l_%d", c.fresh)
			return fmt.Sprintf("let (%s, %s) := Go.listPushBack %s.order %s\nlet %s := { %s with order := %s }\n%s", e, l, r, v, r, r, l, k())
		}
	}
	if len(s.Lhs) == 1 && len(s.Rhs) == 1 {
		if call, ok := s.Rhs[0].(*ast.CallExpr); ok {
			if id, ok := call.Fun.(*ast.Ident); ok {
				if g := byName[id.Name]; g != nil && g.fuel && !g.stateful && !g.recvMut && len(g.retTypes) == 1 {
					c.f.calls = append(c.f.calls, g.key)
					c.f.fuel = true
					as, _ := c.args(call)
					parts := []string{leanName(g.key), "fuel"}
					if g.needsNow {
						c.f.needsNow = true
						parts = append(parts, "now")
					}
					parts = append(parts, as...)
					a := bind(s.Lhs[0], g.retTypes[0])
					hp := c.takePre()
					return hp + fmt.Sprintf("match (%s) with\n| none => none\n| some %s =>\n%s", strings.Join(parts, " "), a, indent(k()))
				}
			}
		}
	}
	if len(s.Lhs) == 2 && len(s.Rhs) == 1 {
		switch r := s.Rhs[0].(type) {
		case *ast.TypeAssertExpr:
			v, t := c.expr(r.X)
			if t != "any" {
				fail(r, "type assertion on a %s", t)
			}
			at := goType(r.Type)
			fnm := map[string]string{"str": "Go.asStr", "f64": "Go.asF64", "bool": "Go.asBool", "anys": "Go.asArr", "obj": "Go.asObj", "int": "Go.asInt"}[at]
			if fnm == "" {
				fail(r, "type assertion to %s", src(r.Type))
			}
			a, ok := bind(s.Lhs[0], at), bind(s.Lhs[1], "bool")
			return fmt.Sprintf("let (%s, %s) := %s %s\n%s", a, ok, fnm, v, k())
		case *ast.CallExpr:
			fun := src(r.Fun)
			if sel, ok := r.Fun.(*ast.SelectorExpr); ok && c.f.recvMut {
				if rx, rt, okx := c.tryExpr(sel.X); okx && rx == c.recv {
					if g := methodOf(rt, sel.Sel.Name); g != nil && g.recvMut && len(g.retTypes) == 2 && !g.fuel {
						c.f.calls = append(c.f.calls, g.key)
						parts := []string{leanName(g.key)}
						if g.needsNow {
							c.f.needsNow = true
							parts = append(parts, "now")
						}
						parts = append(parts, c.recv)
						as, _ := c.args(r)
						parts = append(parts, as...)
						a, b := bind(s.Lhs[0], g.retTypes[0]), bind(s.Lhs[1], g.retTypes[1])
						return fmt.Sprintf("let ((%s, %s), %s) := (%s)\n%s", a, b, c.recv, strings.Join(parts, " "), k())
					}
				}
			}
			if _, rt, _ := c.lookup(c.recv); rt == "sdata" && fun == c.recv+".manager.store.Get" && len(r.Args) == 2 && src(r.Args[0]) == c.recv+".request" {
				// the registry's session of that name (created from the request's cookie on first use)
				if !c.f.recvMut {
					fail(r, "store.Get in a method that does not change the session data")
				}
				nm, nt := c.expr(r.Args[1])
				if nt != "str" {
					fail(r, "session name of type %s", nt)
				}
				a, b := bind(s.Lhs[0], "gsessp"), bind(s.Lhs[1], "error")
				return fmt.Sprintf("let ((%s, %s), %s) := Go.storeGet %s %s\n%s", a, b, c.recv, c.recv, nm, k())
			}
			if id, ok := r.Fun.(*ast.Ident); ok {
				if g := byName[id.Name]; g != nil && g.stateful && g.fuel && len(g.retTypes) == 2 && clocked[c.f.key] && clocked[g.key] {
					// a translated function with a general loop and effects on the state: its result is an Option (fuel), the state
					// comes back next to its results
					c.f.calls = append(c.f.calls, g.key)
					c.f.stateful, c.f.fuel = true, true
					as, _ := c.args(r)
					a, b := bind(s.Lhs[0], g.retTypes[0]), bind(s.Lhs[1], g.retTypes[1])
					hp := c.takePre()
					return hp + fmt.Sprintf("match (%s fuel ops %s w) with\n| none => none\n| some ((%s, %s), w) =>\n%s", leanName(g.key), strings.Join(as, " "), a, b, indent(k()))
				}
			}
			if ce, ok := clockedExternals[fun]; ok && clocked[c.f.key] && len(ce.res) == 2 {
				c.f.stateful = true
				var as []string
				for _, i := range ce.args {
					a, _ := c.expr(r.Args[i])
					as = append(as, a)
				}
				a, b := bind(s.Lhs[0], ce.res[0]), bind(s.Lhs[1], ce.res[1])
				hp := c.takePre()
				return hp + fmt.Sprintf("let ((%s, %s), w) := (ops.%s w %s)\n%s", a, b, ce.field, strings.Join(as, " "), k())
			}
			if se, ok := statefulExternals[fun]; ok && len(se.res) == 2 {
				if c.loops > 0 {
					fail(r, "call on the shared state inside a loop")
				}
				c.f.stateful = true
				as, _ := c.args(r)
				pre := []string{"w"}
				if se.now {
					c.f.needsNow = true
					pre = append(pre, "now")
				}
				a, b := bind(s.Lhs[0], se.res[0]), bind(s.Lhs[1], se.res[1])
				hp := c.takePre()
				return hp + fmt.Sprintf("let ((%s, %s), w) := (ops.%s %s)\n%s", a, b, se.field, strings.Join(append(pre, as...), " "), k())
			}
			if rts, ok := externals[fun]; ok && len(rts) == 2 {
				if field, ok := externalNoArgs[fun]; ok {
					if c.recv == "" {
						fail(r, "call of %s outside a method of the instance", fun)
					}
					a, b := bind(s.Lhs[0], rts[0]), bind(s.Lhs[1], rts[1])
					return fmt.Sprintf("let (%s, %s) := %s.%s\n%s", a, b, c.recv, field, k())
				}
				callee := ""
				if sel, isSel := r.Fun.(*ast.SelectorExpr); isSel {
					rv, _ := c.expr(sel.X)
					callee = rv + "." + sel.Sel.Name
				} else {
					if c.recv == "" {
						fail(r, "call of %s outside a method of the instance", fun)
					}
					callee = c.recv + "." + fun
				}
				as, _ := c.args(r)
				a, b := bind(s.Lhs[0], rts[0]), bind(s.Lhs[1], rts[1])
				return fmt.Sprintf("let (%s, %s) := (%s %s)\n%s", a, b, callee, strings.Join(as, " "), k())
			}
		case *ast.IndexExpr:
			m, mt := c.expr(r.X)
			key, _ := c.expr(r.Index)
			switch mt {
			case "cmap":
				a, ok := bind(s.Lhs[0], "citem"), bind(s.Lhs[1], "bool")
				return fmt.Sprintf("let (%s, %s) := Go.cmapGet %s %s\n%s", a, ok, m, key, k())
			case "emap":
				a, ok := bind(s.Lhs[0], "elemp"), bind(s.Lhs[1], "bool")
				return fmt.Sprintf("let (%s, %s) := Go.emapGet %s %s\n%s", a, ok, m, key, k())
			case "imap":
				a, ok := bind(s.Lhs[0], "gsessp"), bind(s.Lhs[1], "bool")
				return fmt.Sprintf("let (%s, %s) := Go.imapGet %s %s\n%s", a, ok, m, key, k())
			case "obj":
				a, ok := bind(s.Lhs[0], "any"), bind(s.Lhs[1], "bool")
				return fmt.Sprintf("let (%s, %s) := Go.mapGet2 %s %s\n%s", a, ok, m, key, k())
			case "set":
				if id, isID := s.Lhs[0].(*ast.Ident); !isID || id.Name != "_" {
					fail(s, "value of a set member")
				}
				ok := bind(s.Lhs[1], "bool")
				return fmt.Sprintf("let %s := Go.setHas %s %s\n%s", ok, m, key, k())
			}
		}
		fail(s, "unsupported two-value assignment %s", src(s))
	}
	if len(s.Lhs) != len(s.Rhs) {
		fail(s, "unsupported assignment %s", src(s))
	}
	var out strings.Builder
	type pend struct{ name, val string }
	var ps []pend
	for i := range s.Lhs {
		v, t := c.expr(s.Rhs[i])
		if t == "nil" {
			id, _ := s.Lhs[i].(*ast.Ident)
			if id != nil {
				if _, vt, ok := c.lookup(id.Name); ok && vt == "error" {
					v, t = "(none : Go.Err)", "error"
				}
			}
			if t == "nil" {
				fail(s, "nil assigned to something that is not an error")
			}
		}
		ps = append(ps, pend{"", v})
		_ = t
		ps[i].name = bind(s.Lhs[i], t)
	}
	for _, p := range ps {
		fmt.Fprintf(&out, "let %s := %s\n", p.name, p.val)
	}
	hp := c.takePre()
	return hp + out.String() + k()
}

// valueWrap adds what the function hands back besides its results: the shared state `w`, or the struct a method changed in place
func (c *ctx) valueWrap(e string) string {
	if c.f.recvMut {
		if e == "()" {
			e = c.recv
		} else {
			e = "(" + e + ", " + c.recv + ")"
		}
	}
	if c.f.stateful {
		if e == "()" {
			e = "w"
		} else {
			e = "(" + e + ", w)"
		}
	}
	return e
}

func (c *ctx) ret(s *ast.ReturnStmt) string {
	var vals []string
	for i, r := range s.Results {
		v, t := c.expr(r)
		if t == "nil" {
			if i < len(c.f.retTypes) && c.f.retTypes[i] == "error" {
				v = "(none : Go.Err)"
			} else if i < len(c.f.retTypes) && (c.f.retTypes[i] == "strs" || c.f.retTypes[i] == "anys") {
				v = zero(c.f.retTypes[i])
			} else if i < len(c.f.retTypes) && c.f.retTypes[i] == "any" {
				v = "Go.Any.nil"
			} else if i < len(c.f.retTypes) && c.f.retTypes[i] == "obj" {
				v = "([] : Go.Obj)"
			} else if i < len(c.f.retTypes) && c.f.retTypes[i] == "metap" {
				v = "(none : Option Go.Meta)"
			} else if i < len(c.f.retTypes) && c.f.retTypes[i] == "jwksp" {
				v = "(none : Option Go.JWKSet)"
			} else {
				fail(s, "nil returned as something that is not an error")
			}
		}
		vals = append(vals, v)
	}
	e := "()"
	if len(vals) == 1 {
		e = vals[0]
	} else if len(vals) > 1 {
		e = "(" + strings.Join(vals, ", ") + ")"
	}
	return c.takePre() + c.retWrap[len(c.retWrap)-1](c.valueWrap(e))
}

// assigned collects the outer variables (by Lean name) a loop body assigns
func (c *ctx) assigned(n ast.Node) []string {
	seen := map[string]bool{}
	var out []string
	ast.Inspect(n, func(m ast.Node) bool {
		if inc, ok := m.(*ast.IncDecStmt); ok {
			if id, ok := inc.X.(*ast.Ident); ok {
				if ln, _, ok := c.lookup(id.Name); ok && !seen[ln] {
					seen[ln] = true
					out = append(out, ln)
				}
			}
		}
		if a, ok := m.(*ast.AssignStmt); ok && a.Tok == token.ASSIGN {
			for _, l := range a.Lhs {
				if id, ok := l.(*ast.Ident); ok && id.Name != "_" {
					if ln, _, ok := c.lookup(id.Name); ok && !seen[ln] {
						seen[ln] = true
						out = append(out, ln)
					}
				}
			}
		}
		return true
	})
	if c.f.recvMut && c.recv != "" && !seen[c.recv] {
		out = append(out, c.recv)
	}
	if c.f.stateful && !seen["w"] {
		out = append(out, "w")
	}
	sort.Strings(out)
	return out
}

// assignedAll: the union of `assigned` over several nodes
func (c *ctx) assignedAll(ns []ast.Node) []string {
	seen := map[string]bool{}
	var out []string
	for _, n := range ns {
		for _, v := range c.assigned(n) {
			if !seen[v] {
				seen[v] = true
				out = append(out, v)
			}
		}
	}
	sort.Strings(out)
	return out
}

func tuple(names []string) string {
	switch len(names) {
	case 0:
		return "()"
	case 1:
		return names[0]
	}
	return "(" + strings.Join(names, ", ") + ")"
}

func (c *ctx) stmt(s ast.Stmt, k func() string) string {
	switch x := s.(type) {
	case *ast.ExprStmt:
		if isLogger(x.X) || c.isLoggerVar(x.X) {
			return k()
		}
		if call, ok := x.X.(*ast.CallExpr); ok && c.f.recvMut {
			if out, ok := c.recvStmt(call, k); ok {
				return out
			}
		}
		if call, ok := x.X.(*ast.CallExpr); ok { // a call for its effect on the shared state
			_, t := c.expr(call)
			if t == "unit" && len(c.pre) > 0 {
				p := c.takePre()
				return p + k()
			}
			fail(x, "call statement without effect on the shared state")
		}
	case *ast.IncDecStmt:
		if id, ok := x.X.(*ast.Ident); ok {
			if ln, t, ok := c.lookup(id.Name); ok && t == "int" {
				op := "+"
				if x.Tok == token.DEC {
					op = "-"
				}
				return fmt.Sprintf("let %s := (%s %s (1 : Int))\n%s", ln, ln, op, k())
			}
		}
	case *ast.DeferStmt:
		if strings.Contains(src(x.Call.Fun), ".mutex.") { // (the lock discipline is an obligation of its own: regenerated facts)
			return k()
		}
	case *ast.EmptyStmt:
		return k()
	case *ast.BlockStmt:
		return c.block(x, k)
	case *ast.AssignStmt:
		return c.assign(x, k)
	case *ast.DeclStmt:
		gd := x.Decl.(*ast.GenDecl)
		if gd.Tok == token.VAR {
			var out strings.Builder
			for _, sp := range gd.Specs {
				vs := sp.(*ast.ValueSpec)
				for i, n := range vs.Names {
					if len(vs.Values) > i {
						v, t := c.expr(vs.Values[i])
						fmt.Fprintf(&out, "let %s := %s\n", c.declare(n.Name, t), v)
					} else {
						t := goType(vs.Type)
						fmt.Fprintf(&out, "let %s := %s\n", c.declare(n.Name, t), zero(t))
					}
				}
			}
			return out.String() + k()
		}
	case *ast.ReturnStmt:
		return c.ret(x)
	case *ast.BranchStmt:
		if x.Tok == token.BREAK && x.Label == nil && len(c.brk) > 0 && c.brk[len(c.brk)-1] != nil {
			return c.brk[len(c.brk)-1]()
		}
	case *ast.IfStmt:
		c.push() // scope of the init statement
		depth := len(c.scopes)
		outer := func() string { // the code after the if, outside its scope
			saved := c.scopes[depth-1:]
			c.scopes = c.scopes[:depth-1]
			r := k()
			c.scopes = append(c.scopes, saved...)
			return r
		}
		body := func() string {
			cond, t := c.expr(x.Cond)
			if t != "bool" {
				fail(x.Cond, "condition of type %s", t)
			}
			hoisted := c.takePre()
			th := c.block(x.Body, outer)
			var el string
			switch e := x.Else.(type) {
			case nil:
				el = outer()
			case *ast.BlockStmt:
				el = c.block(e, outer)
			case *ast.IfStmt:
				el = c.stmt(e, outer)
			}
			return hoisted + fmt.Sprintf("if %s then\n%s\nelse\n%s", cond, indent(th), indent(el))
		}
		var out string
		if x.Init != nil {
			out = c.stmt(x.Init, body)
		} else {
			out = body()
		}
		c.pop()
		return out
	case *ast.SwitchStmt:
		if x.Init != nil || x.Tag == nil {
			fail(x, "unsupported switch form")
		}
		tag, _ := c.expr(x.Tag)
		var def *ast.CaseClause
		var out strings.Builder
		closers := 0
		for _, cl := range x.Body.List {
			cc := cl.(*ast.CaseClause)
			if cc.List == nil {
				def = cc
				continue
			}
			var conds []string
			for _, v := range cc.List {
				vs, _ := c.expr(v)
				conds = append(conds, "("+tag+" == "+vs+")")
			}
			c.push()
			b := c.stmts(cc.Body, k)
			c.pop()
			fmt.Fprintf(&out, "if %s then\n%s\nelse\n", strings.Join(conds, " || "), indent(b))
			closers++
		}
		if def != nil {
			c.push()
			out.WriteString(indent(c.stmts(def.Body, k)))
			c.pop()
		} else {
			out.WriteString(indent(k()))
		}
		return out.String()
	case *ast.TypeSwitchStmt:
		as, ok := x.Assign.(*ast.AssignStmt)
		if !ok || x.Init != nil {
			fail(x, "unsupported type switch form")
		}
		ta := as.Rhs[0].(*ast.TypeAssertExpr)
		v, t := c.expr(ta.X)
		if t != "any" {
			fail(x, "type switch on a %s", t)
		}
		name := as.Lhs[0].(*ast.Ident).Name
		var out strings.Builder
		fmt.Fprintf(&out, "match %s with\n", v)
		var def *ast.CaseClause
		for _, cl := range x.Body.List {
			cc := cl.(*ast.CaseClause)
			if cc.List == nil {
				def = cc
				continue
			}
			if len(cc.List) != 1 {
				fail(cc, "type switch case with several types")
			}
			ct := goType(cc.List[0])
			ctor := map[string]string{"str": ".str", "f64": ".num", "bool": ".bool", "anys": ".arr", "obj": ".obj"}[ct]
			if ctor == "" {
				fail(cc, "type switch case %s", src(cc.List[0]))
			}
			c.push()
			ln := c.declare(name, ct)
			b := c.stmts(cc.Body, k)
			c.pop()
			fmt.Fprintf(&out, "| %s %s =>\n%s\n", ctor, ln, indent(b))
		}
		c.push()
		if def != nil {
			fmt.Fprintf(&out, "| _ =>\n%s", indent(c.stmts(def.Body, k)))
		} else {
			fmt.Fprintf(&out, "| _ =>\n%s", indent(k()))
		}
		c.pop()
		return out.String()
	case *ast.ForStmt:
		if x.Cond == nil { // for init; ; post { … break … }
			x = &ast.ForStmt{For: x.For, Init: x.Init, Cond: &ast.Ident{NamePos: x.For, Name: "true"}, Post: x.Post, Body: x.Body}
		}
		if x.Init != nil { // for i := 0; cond; post { body }  =  { i := 0; for cond { body; post } }
			c.push()
			depth := len(c.scopes)
			inner := &ast.ForStmt{For: x.For, Cond: x.Cond, Post: x.Post, Body: x.Body}
			out := c.stmt(x.Init, func() string {
				return c.stmt(inner, func() string {
					saved := c.scopes[depth-1:]
					c.scopes = c.scopes[:depth-1]
					r := k()
					c.scopes = append(c.scopes, saved...)
					return r
				})
			})
			c.pop()
			return out
		}
		c.f.fuel = true
		c.loops++
		defer func() { c.loops-- }()
		probe := []ast.Node{x.Body}
		if x.Post != nil {
			probe = append(probe, x.Post)
		}
		state := c.assignedAll(probe)
		st := tuple(state)
		cond, ct := c.expr(x.Cond)
		if ct != "bool" {
			fail(x.Cond, "condition of type %s", ct)
		}
		c.retWrap = append(c.retWrap, func(e string) string { return ".ret (" + e + ")" })
		c.brk = append(c.brk, func() string { return ".brk " + st })
		body := c.block(x.Body, func() string {
			if x.Post != nil {
				return c.stmt(x.Post, func() string { return ".next " + st })
			}
			return ".next " + st
		})
		c.retWrap = c.retWrap[:len(c.retWrap)-1]
		c.brk = c.brk[:len(c.brk)-1]
		after := k()
		if len(c.retWrap) != 1 {
			fail(x, "general for loop nested in another loop")
		}
		return fmt.Sprintf("match Go.forWhile fuel %s (fun %s => %s) (fun %s =>\n%s) with\n| none => none\n| some (.ret r) => some r\n| some (.next %s) =>\n%s\n| some (.brk %s) =>\n%s",
			st, st, cond, st, indent(body), st, indent(after), st, indent(after))
	case *ast.RangeStmt:
		xs, t := c.expr(x.X)
		var elemT string
		var varExpr ast.Expr
		switch t {
		case "anys", "strs", "jwklist", "hdrs":
			elemT = map[string]string{"anys": "any", "strs": "str", "jwklist": "jwk", "hdrs": "hdr"}[t]
			if x.Key != nil {
				if id, ok := x.Key.(*ast.Ident); !ok || id.Name != "_" {
					if t != "strs" || x.Value == nil {
						fail(x, "range with an index variable")
					}
					elemT = "ipair"
				}
			}
			varExpr = x.Value
		case "cmap":
			elemT = "cpair"
		case "set":
			elemT = "str"
			if x.Value != nil {
				fail(x, "range over a set with a value variable")
			}
			varExpr = x.Key
		default:
			fail(x, "range over a %s", t)
		}
		state := c.assigned(x.Body)
		st := tuple(state)
		c.loops++
		defer func() { c.loops-- }()
		c.push()
		v := "_"
		if varExpr != nil {
			v = varExpr.(*ast.Ident).Name
		}
		var lv string
		if elemT == "ipair" { // for i, chunk := range chunks
			xs = "(Go.enum " + xs + ")"
			lv = "(" + c.declare(x.Key.(*ast.Ident).Name, "int") + ", " + c.declare(x.Value.(*ast.Ident).Name, "str") + ")"
		} else if elemT == "cpair" { // for key, item := range c.items
			kn, vn := "_", "_"
			if x.Key != nil {
				kn = x.Key.(*ast.Ident).Name
			}
			if x.Value != nil {
				vn = x.Value.(*ast.Ident).Name
			}
			lv = "(" + c.declare(kn, "str") + ", " + c.declare(vn, "citem") + ")"
		} else {
			lv = c.declare(v, elemT)
		}
		c.retWrap = append(c.retWrap, func(e string) string { return ".ret (" + e + ")" })
		c.brk = append(c.brk, func() string { return ".brk " + st })
		body := c.block(x.Body, func() string { return ".next " + st })
		c.retWrap = c.retWrap[:len(c.retWrap)-1]
		c.brk = c.brk[:len(c.brk)-1]
		c.pop()
		after := k()
		outerRet := c.retWrap[len(c.retWrap)-1]("r")
		return fmt.Sprintf("match Go.forRange %s %s (fun %s %s =>\n%s) with\n| .ret r => %s\n| .next %s =>\n%s\n| .brk %s =>\n%s",
			xs, st, lv, st, indent(body), outerRet, st, indent(after), st, indent(after))
	}
	fail(s, "unsupported statement %s", strings.SplitN(src(s), "\n", 2)[0])
	return ""
}

func indent(s string) string {
	lines := strings.Split(s, "\n")
	for i := range lines {
		lines[i] = "  " + lines[i]
	}
	return strings.Join(lines, "\n")
}

// ---------------------------------------------------------------------------------------------- driver
func (f *fn) translate() (code string, err string) {
	defer func() {
		if p := recover(); p != nil {
			if u, ok := p.(unsupported); ok {
				err = u.msg
				return
			}
			panic(p)
		}
	}()
	c := &ctx{f: f}
	c.retWrap = []func(string) string{func(e string) string {
		if f.fuel {
			return "some (" + e + ")"
		}
		return e
	}}
	c.push()
	var params []string
	if f.decl.Recv != nil {
		r := f.decl.Recv.List[0]
		t := goType(r.Type)
		if t == "sess" && strings.HasPrefix(f.key, "SessionData.") && want[f.key] {
			t = "sdata"
		}
		c.recv = c.declare(r.Names[0].Name, t)
		params = append(params, fmt.Sprintf("(%s : %s)", c.recv, leanType(t)))
		if t == "cache" || t == "tcache" || recvMutMethods[f.key] {
			f.recvMut = true
		}
		f.recvType = leanType(t)
	}
	f.paramTypes = nil
	for _, p := range f.decl.Type.Params.List {
		t := goType(p.Type)
		for _, n := range p.Names {
			params = append(params, fmt.Sprintf("(%s : %s)", c.declare(n.Name, t), leanType(t)))
			f.paramTypes = append(f.paramTypes, t)
		}
	}
	var rts []string
	for _, t := range f.retTypes {
		rts = append(rts, leanType(t))
	}
	rt := "Unit"
	if len(rts) == 1 {
		rt = rts[0]
	} else if len(rts) > 1 {
		rt = strings.Join(rts, " × ")
	}
	body := c.block(f.decl.Body, func() string {
		if len(f.retTypes) == 0 {
			return c.retWrap[0](c.valueWrap("()"))
		}
		fail(f.decl, "control reaches the end of a function with results")
		return ""
	})
	if f.needsNow {
		params = append([]string{"(now : Go.Time)"}, params...)
	}
	if f.recvMut {
		if len(rts) == 0 {
			rt = f.recvType
		} else {
			if len(rts) > 1 {
				rt = "(" + rt + ")"
			}
			rt = rt + " × " + f.recvType
		}
	}
	if f.stateful {
		opsT := "Go.VOps"
		if clocked[f.key] {
			opsT = "Go.DOps"
		}
		params = append([]string{"{σ : Type} (ops : " + opsT + " σ)"}, params...)
		params = append(params, "(w : σ)")
		if len(rts) == 0 && !f.recvMut {
			rt = "σ"
		} else {
			if len(rts) > 1 || f.recvMut && len(rts) > 0 {
				rt = "(" + rt + ")"
			}
			rt = rt + " × σ"
		}
	}
	if f.fuel {
		params = append([]string{"(fuel : Nat)"}, params...)
		rt = "Option (" + rt + ")"
	}
	return fmt.Sprintf("def %s %s : %s :=\n%s\n", leanName(f.key), strings.Join(params, " "), rt, indent(body)), ""
}

func main() {
	if len(os.Args) != 3 {
		fmt.Fprintln(os.Stderr, "usage: go2lean <repo> <out.lean>")
		os.Exit(2)
	}
	repo, outp := os.Args[1], os.Args[2]
	files, _ := filepath.Glob(filepath.Join(repo, "*.go"))
	sort.Strings(files)
	for _, t := range targets {
		want[t] = true
	}
	for _, p := range files {
		if strings.HasSuffix(p, "_test.go") {
			continue
		}
		b, err := os.ReadFile(p)
		if err != nil {
			continue
		}
		srcBytes[p] = b
		af, err := parser.ParseFile(fset, p, b, 0)
		if err != nil {
			fmt.Fprintln(os.Stderr, "go2lean: cannot parse", p, err)
			os.Exit(1)
		}
		for _, d := range af.Decls {
			switch x := d.(type) {
			case *ast.FuncDecl:
				key := x.Name.Name
				if x.Recv != nil {
					rt := x.Recv.List[0].Type
					if st, ok := rt.(*ast.StarExpr); ok {
						rt = st.X
					}
					key = src(rt) + "." + key
				}
				if want[key] && x.Body != nil {
					f := &fn{key: key, decl: x}
					funcs[key] = f
					if x.Recv == nil {
						byName[x.Name.Name] = f
					}
				}
			case *ast.GenDecl:
				if x.Tok == token.VAR || x.Tok == token.CONST {
					for _, sp := range x.Specs {
						vs := sp.(*ast.ValueSpec)
						for i, n := range vs.Names {
							if globals[n.Name] != "" && i < len(vs.Values) {
								gdecl[n.Name] = vs.Values[i]
							}
						}
					}
				}
			}
		}
	}
	var out strings.Builder
	out.WriteString("import Oidc.GoLib\n/-! # /repo's functions translated by tools/go2lean (regenerated on every run; do not edit) -/\nnamespace Oidc.Generated.Code\nopen Oidc\nset_option linter.unusedVariables false\n\n")
	// globals
	var gn []string
	for n := range globals {
		gn = append(gn, n)
	}
	sort.Strings(gn)
	for _, n := range gn {
		e, ok := gdecl[n]
		if !ok {
			fmt.Fprintf(&out, "def %s : Go.Untranslatable := ⟨\"declaration not found\"⟩\n", n)
			continue
		}
		func() {
			defer func() {
				if p := recover(); p != nil {
					fmt.Fprintf(&out, "def %s : Go.Untranslatable := ⟨%q⟩\n", n, fmt.Sprint(p))
				}
			}()
			c := &ctx{f: &fn{}}
			c.push()
			v, _ := c.expr(e)
			fmt.Fprintf(&out, "def %s : %s := %s\n", n, leanType(globals[n]), v)
		}()
	}
	out.WriteString("\n")
	// result types first (calls need them), then translate in dependency order
	for _, f := range funcs {
		func() {
			defer func() { recover() }()
			if f.decl.Type.Results != nil {
				for _, r := range f.decl.Type.Results.List {
					n := len(r.Names)
					if n == 0 {
						n = 1
					}
					for i := 0; i < n; i++ {
						f.retTypes = append(f.retTypes, goType(r.Type))
					}
				}
			}
			if f.key == "JWKCache.GetJWKS" && len(f.retTypes) == 2 && f.retTypes[0] == "jwks" {
				f.retTypes[0] = "jwksp" // (a *JWKSet that is nil on failure)
			}
		}()
	}
	// needsNow must be known before callers are translated: iterate to a fixed point
	codes := map[string]string{}
	errs := map[string]string{}
	for round := 0; round < 6; round++ {
		for _, t := range targets {
			f := funcs[t]
			if f == nil {
				continue
			}
			f.calls = nil
			codes[t], errs[t] = f.translate()
		}
	}
	done := map[string]bool{}
	var emit func(string)
	emit = func(t string) {
		if done[t] {
			return
		}
		done[t] = true
		f := funcs[t]
		if f == nil {
			fmt.Fprintf(&out, "def %s : Go.Untranslatable := ⟨\"function not found in /repo\"⟩\n\n", leanName(t))
			fmt.Fprintf(os.Stderr, "go2lean: not found: %s\n", t)
			return
		}
		for _, cal := range f.calls {
			emit(cal)
		}
		if errs[t] != "" {
			fmt.Fprintf(&out, "def %s : Go.Untranslatable := ⟨%q⟩\n\n", leanName(t), errs[t])
			fmt.Fprintf(os.Stderr, "go2lean: not translatable: %s: %s\n", t, errs[t])
			return
		}
		p := fset.Position(f.decl.Pos())
		fmt.Fprintf(&out, "/-- %s (%s) -/\n%s\n", t, filepath.Base(p.Filename), codes[t])
	}
	for _, t := range targets {
		emit(t)
	}
	out.WriteString("end Oidc.Generated.Code\n")
	// (rewritten only when the content changes, so that an unchanged source costs no rebuild of the Lean modules on top of it)
	if old, err := os.ReadFile(outp); err != nil || string(old) != out.String() {
		os.Remove(outp)
		if err := os.WriteFile(outp, []byte(out.String()), 0o644); err != nil {
			fmt.Fprintln(os.Stderr, err)
			os.Exit(1)
		}
	}
	// summary for the evidence: one line of JSON on stdout
	var okNames, badNames []string
	for _, t := range targets {
		if funcs[t] != nil && errs[t] == "" {
			okNames = append(okNames, t)
		} else {
			why := errs[t]
			if funcs[t] == nil {
				why = "not found"
			}
			badNames = append(badNames, t+": "+why)
		}
	}
	js, _ := json.Marshal(map[string][]string{"translated": okNames, "untranslatable": badNames})
	fmt.Println(string(js))
}
